package run

// Shared machinery of the asynchronous families (C06, C02, C07): probe provider, gated callbacks, a
// quiescence detector based on goroutine states, a scripted scheduler and the canonical observation.
//
// One case = one materialisation of
//
//	cmap  : Map(src, f, WithConcurrentMapOption(c)) [wrappers] . sequential terminal
//	ccons : src . ConsumeWithErrAndCtx(cb, WithConcurrentConsumeOption(c))
//	buf   : Buffered(src, size) [wrappers] . sequential terminal
//	nest  : Buffered(Map(src, f, WithConcurrentMapOption(c)), size) . sequential terminal
//	pipe  : jsonstream.StreamJsonAsReaderAndReturn(src, consumer reading `reads` chunks)
//
// run on its own goroutine while the calling goroutine plays the environment: it repeatedly waits until every
// goroutine that belongs to the materialisation is blocked (channel op / select / WaitGroup), then releases ONE
// parked call chosen by the case's script (a mapper call, the held consumer callback, a parked source Emit) or
// cancels the caller context.  With sync=1 every choice is made in a quiescent state, so the run is a deterministic
// function of the case line (the Lean model replays it); with sync=0 choices are made without waiting (the Go
// scheduler decides the interleaving; only schedule-independent facts are compared).

import (
	"bytes"
	"context"
	"errors"
	"fmt"
	"io"
	"os"
	"os/exec"
	"runtime"
	"sort"
	"strconv"
	"strings"
	"sync"
	"sync/atomic"
	"time"

	"github.com/shpandrak/shpanstream/stream"
	"github.com/shpandrak/shpanstream/utils/jsonstream"
)

const concLibPath = "github.com/shpandrak/shpanstream/"
const concRunnerMark = "run.concRunner"

var errConcUser = errors.New("verif-user-error")

// ---------------------------------------------------------------------------------------------------------------
// goroutine snapshot / quiescence

type concSnap struct {
	relevant int  // goroutines of the materialisation (library frames, created by the library, or the runner)
	blocked  int  // of those, blocked in a channel op / select / WaitGroup
	runner   bool // the goroutine running the terminal still exists
	libMade  int  // goroutines created by the library
	ids      map[uint64]bool
}

func curGid() uint64 {
	var buf [64]byte
	n := runtime.Stack(buf[:], false)
	// "goroutine 123 ["
	f := bytes.Fields(buf[:n])
	if len(f) < 2 {
		return 0
	}
	id, _ := strconv.ParseUint(string(f[1]), 10, 64)
	return id
}

var concStackBuf = make([]byte, 1<<20)
var concScanMu sync.Mutex

// concBlockedState: is the goroutine parked on something only another goroutine of the materialisation (or the
// environment) can change?  "semacquire" counts only for WaitGroup.Wait: the runtime uses semaphores internally too
// (a probe calling runtime.Stack while the scanner stops the world looks like "semacquire" for a moment).
func concBlockedState(st, body string) bool {
	for _, p := range []string{"chan receive", "chan send", "select", "sync.WaitGroup.Wait", "sync.Cond.Wait"} {
		if strings.HasPrefix(st, p) {
			return true
		}
	}
	if strings.HasPrefix(st, "semacquire") && strings.Contains(body, "sync.(*WaitGroup).Wait") {
		return true
	}
	return false
}

func concScan(ignore map[uint64]bool) concSnap {
	concScanMu.Lock()
	defer concScanMu.Unlock()
	n := runtime.Stack(concStackBuf, true)
	for n == len(concStackBuf) {
		concStackBuf = make([]byte, 2*len(concStackBuf))
		n = runtime.Stack(concStackBuf, true)
	}
	snap := concSnap{ids: map[uint64]bool{}}
	for _, g := range strings.Split(string(concStackBuf[:n]), "\n\n") {
		if !strings.HasPrefix(g, "goroutine ") {
			continue
		}
		isRunner := strings.Contains(g, concRunnerMark)
		if !isRunner && !strings.Contains(g, concLibPath) {
			continue
		}
		hdrEnd := strings.IndexByte(g, '\n')
		if hdrEnd < 0 {
			hdrEnd = len(g)
		}
		hdr := g[:hdrEnd]
		f := strings.Fields(hdr)
		var id uint64
		if len(f) >= 2 {
			id, _ = strconv.ParseUint(f[1], 10, 64)
		}
		if ignore[id] {
			continue
		}
		snap.ids[id] = true
		snap.relevant++
		if isRunner {
			snap.runner = true
		}
		if strings.Contains(g, "created by "+concLibPath) {
			snap.libMade++
		}
		lb, rb := strings.IndexByte(hdr, '['), strings.LastIndexByte(hdr, ']')
		if lb >= 0 && rb > lb && concBlockedState(hdr[lb+1:rb], g) {
			snap.blocked++
		}
	}
	return snap
}

// concSettle waits until every goroutine of the materialisation is blocked (or none is left).
func concSettle(ignore map[uint64]bool, watchdog time.Duration) (concSnap, bool) {
	deadline := time.Now().Add(watchdog)
	for i := 0; ; i++ {
		s := concScan(ignore)
		if s.blocked == s.relevant {
			return s, true
		}
		if time.Now().After(deadline) {
			return s, false
		}
		if i < 20 {
			runtime.Gosched()
		} else {
			time.Sleep(20 * time.Microsecond)
		}
	}
}

// concQuiesce waits until no goroutine of the materialisation is left; returns how many remain.
func concQuiesce(ignore map[uint64]bool, watchdog time.Duration) int {
	return concQuiesceExcept(ignore, watchdog, nil)
}

// concQuiesceExcept: like concQuiesce, but when a reader that outlived its terminal sits inside a slow provider call
// (slow() is true) and everything that is left is blocked, nothing will move until the environment releases that
// call: this is the state the next materialisation of a `slowret` case is meant to meet.
func concQuiesceExcept(ignore map[uint64]bool, watchdog time.Duration, slow func() bool) int {
	deadline := time.Now().Add(watchdog)
	for i := 0; ; i++ {
		s := concScan(ignore)
		if s.relevant == 0 {
			return 0
		}
		if slow != nil && slow() && s.blocked == s.relevant {
			return 0
		}
		if time.Now().After(deadline) {
			return s.relevant
		}
		if i < 20 {
			runtime.Gosched()
		} else {
			time.Sleep(50 * time.Microsecond)
		}
	}
}

// ---------------------------------------------------------------------------------------------------------------
// event log with renumbered goroutine ids

type concLog struct {
	mu   sync.Mutex
	ev   []string
	gids map[uint64]int
}

func (l *concLog) g() int {
	id := curGid()
	l.mu.Lock()
	defer l.mu.Unlock()
	if l.gids == nil {
		l.gids = map[uint64]int{}
	}
	if v, ok := l.gids[id]; ok {
		return v
	}
	v := len(l.gids)
	l.gids[id] = v
	return v
}

func (l *concLog) add(s string) {
	l.mu.Lock()
	l.ev = append(l.ev, s)
	l.mu.Unlock()
}

func (l *concLog) String() string {
	l.mu.Lock()
	defer l.mu.Unlock()
	if len(l.ev) == 0 {
		return "-"
	}
	return strings.Join(l.ev, ",")
}

// ---------------------------------------------------------------------------------------------------------------
// gates: parked calls the environment releases one by one

type concGate struct {
	mu      sync.Mutex
	waiting map[int]chan int // id -> release channel (value = outcome code)
	cur     int
	max     int
	started []int
}

func newConcGate() *concGate { return &concGate{waiting: map[int]chan int{}} }

// enter parks the caller until released (returns the outcome code) or ctx is done (returns -1).
// With park=false the call is only counted.
func (g *concGate) enter(ctx context.Context, id int, park bool) int {
	g.mu.Lock()
	g.cur++
	if g.cur > g.max {
		g.max = g.cur
	}
	g.started = append(g.started, id)
	var ch chan int
	if park {
		ch = make(chan int, 1)
		g.waiting[id] = ch
	}
	g.mu.Unlock()
	out := 0
	if park {
		select {
		case out = <-ch:
		case <-ctx.Done():
			out = -1
			g.mu.Lock()
			delete(g.waiting, id)
			g.mu.Unlock()
		}
	}
	return out
}

func (g *concGate) leave() {
	g.mu.Lock()
	g.cur--
	g.mu.Unlock()
}

func (g *concGate) inflight() []int {
	g.mu.Lock()
	defer g.mu.Unlock()
	ids := make([]int, 0, len(g.waiting))
	for id := range g.waiting {
		ids = append(ids, id)
	}
	sort.Ints(ids)
	return ids
}

func (g *concGate) release(id, outcome int) bool {
	g.mu.Lock()
	ch, ok := g.waiting[id]
	if ok {
		delete(g.waiting, id)
	}
	g.mu.Unlock()
	if ok {
		ch <- outcome
	}
	return ok
}

func (g *concGate) releaseAll() {
	for _, id := range g.inflight() {
		g.release(id, 0)
	}
}

func (g *concGate) stats() (max int, started []int) {
	g.mu.Lock()
	defer g.mu.Unlock()
	return g.max, append([]int(nil), g.started...)
}

// ---------------------------------------------------------------------------------------------------------------
// probe provider

type concProbe struct {
	n        int
	log      *concLog
	gate     *concGate // non-nil: every Emit parks until released (honouring ctx)
	parkAt   int       // >=0: only this Emit call parks, and only ctx.Done() wakes it (D5 recipe); -1: none
	slowAt   int       // this Emit call sleeps slowMs before it returns (a source that is quiet for a while)
	slowMs   int
	slowret  int      // the parked call takes this many ms to return after its ctx was cancelled (slow to cancel)
	errAt    int      // Emit call index that fails; -1: none
	yield    int      // slow source: Gosched this many times per Emit
	entered  chan int // receives the call index when an Emit call has started (buffered)
	cursor   atomic.Int32
	calls    atomic.Int32
	returned atomic.Int32 // Emit calls that returned a value
	inEmit   atomic.Int32
	opened   atomic.Bool
	closed   atomic.Bool
	// violations observed by the provider itself
	overlap     atomic.Bool // two goroutines inside Emit
	beforeOpen  atomic.Bool // Emit before Open returned nil
	afterClose  atomic.Bool // Emit started after Close was called
	closeInEmit atomic.Bool // Close called while an Emit was running
	closes      atomic.Int32
	parked      atomic.Bool // the Emit call `parkAt` is waiting for its ctx
	slowWait    atomic.Bool // the cancelled parked call is waiting for the environment before it returns
	slowRelease chan struct{}
	slowSince   atomic.Int64 // when the cancelled parked call started to wait for the environment
	openFail    bool         // Open returns an error (sofail=1)
}

// releaseSlow lets a cancelled-but-still-inside Emit call return; reports whether there was one.
func (p *concProbe) releaseSlow() bool {
	if !p.slowWait.Load() {
		return false
	}
	select {
	case p.slowRelease <- struct{}{}:
	default:
	}
	for i := 0; p.slowWait.Load() && i < 200000; i++ {
		runtime.Gosched()
	}
	return true
}

func (p *concProbe) Open(ctx context.Context) error {
	if p.openFail {
		p.log.add(fmt.Sprintf("of%d", p.log.g()))
		return errConcUser
	}
	// a new materialisation: the provider starts over
	p.cursor.Store(0)
	p.calls.Store(0)
	p.parked.Store(false)
	p.closed.Store(false)
	p.log.add(fmt.Sprintf("o%d", p.log.g()))
	p.opened.Store(true)
	return nil
}

func (p *concProbe) Close() {
	in := p.inEmit.Load()
	if in > 0 {
		p.closeInEmit.Store(true)
	}
	p.closes.Add(1)
	p.closed.Store(true)
	p.log.add(fmt.Sprintf("C%d:%d", p.log.g(), in))
}

func (p *concProbe) Emit(ctx context.Context) (int, error) {
	k := int(p.calls.Add(1)) - 1
	g := p.log.g()
	if p.inEmit.Add(1) > 1 {
		p.overlap.Store(true)
	}
	defer p.inEmit.Add(-1)
	if !p.opened.Load() {
		p.beforeOpen.Store(true)
	}
	if p.closed.Load() {
		p.afterClose.Store(true)
	}
	p.log.add(fmt.Sprintf("s%d", g))
	if p.entered != nil {
		select {
		case p.entered <- k:
		default:
		}
	}
	for i := 0; i < p.yield; i++ {
		runtime.Gosched()
	}
	if p.parkAt == k {
		p.parked.Store(true)
		<-ctx.Done()
		if p.slowret > 0 {
			// slow to cancel: the call stays inside the provider until the environment lets it go (a blocked state
			// for the quiescence detector); the timer is only a safety net
			p.slowSince.Store(time.Now().UnixNano())
			p.slowWait.Store(true)
			select {
			case <-p.slowRelease:
			case <-time.After(5 * time.Second):
			}
			p.slowWait.Store(false)
		}
		p.log.add(fmt.Sprintf("r%dc", g))
		return 0, ctx.Err()
	}
	if p.gate != nil {
		out := p.gate.enter(ctx, k, true)
		p.gate.leave()
		if out < 0 {
			p.log.add(fmt.Sprintf("r%dc", g))
			return 0, ctx.Err()
		}
	}
	if p.slowMs > 0 && p.slowAt == k {
		time.Sleep(time.Duration(p.slowMs) * time.Millisecond)
	}
	if p.errAt == k {
		p.log.add(fmt.Sprintf("r%dx", g))
		return 0, errConcUser
	}
	c := int(p.cursor.Load())
	if c >= p.n {
		p.log.add(fmt.Sprintf("r%de", g))
		return 0, io.EOF
	}
	p.cursor.Store(int32(c + 1))
	p.returned.Add(1)
	p.log.add(fmt.Sprintf("r%dv", g))
	return c, nil
}

// ---------------------------------------------------------------------------------------------------------------
// case description

type concCase struct {
	op        string
	c         int    // concurrency
	n         int    // source length
	size      int    // Buffered size
	sync      bool   // choices in quiescent states only
	mg        bool   // mapper / concurrent-consume callback gated
	cg        bool   // sequential consumer callback gated
	sg        bool   // source Emit gated
	yield     int    // slow source
	limit     int    // Limit(k) wrapper (0 = none)
	first     bool   // FindFirst
	cf        int    // sequential consumer fails on its k-th call (1-based, 0 = never)
	mf        int    // mapper (or concurrent-consume callback) fails for element i (-1 = never)
	mp        int    // mapper (or concurrent-consume callback) panics for element i (-1 = never)
	se        int    // source Emit call index that fails (-1 = never)
	park      int    // source Emit call index that parks until ctx.Done (-1 = never)
	cancel    int    // cancel the caller ctx before the t-th scheduler action (-1 = never)
	reads     int    // pipe: chunks the consumer reads before returning (-1 = to EOF)
	filt      string // "" | "d7": gated Filter that cancels inside its 2nd call (D7/D24 recipe)
	trials    int    // repeat the (racy) case this many times and count outcomes
	script    []int
	child     bool   // run in a re-exec'd child process (the case may crash the process)
	ofail     string // "" | "err" | "panic": a lifecycle element placed AFTER the async stage whose Open fails
	dl        bool   // the caller's context ends by its DEADLINE (ctx.Err() = context.DeadlineExceeded) instead of a cancel call
	mwf       bool   // the stage is MapWhileFilteringWithErrAndCtx with the concurrent option: the mapper filters elements i with i%3 == 1 out (nil)
	cbms      int    // every concurrent-consume callback takes this many milliseconds (workers busy and the item channel full for long)
	slowhold  int    // the environment keeps a cancelled, slow-to-return Emit call inside the provider for this many ms (longer than any grace period)
	sofail    bool   // the SOURCE provider's Open fails (the asynchronous stage has nothing to read: no reader may be waited for)
	osat      bool   // the failing Open waits until the stage has saturated (the source is no longer pulled: workers hold results nobody takes)
	rep       int    // materialise the SAME stream value this many times (>= 1)
	slowat    int    // source Emit call index that takes `slowms` milliseconds before it returns (-1 = none): a quiet source
	slowms    int
	ptr       bool   // concurrent map to a POINTER type whose mapper returns nil for elements i with i%3 == 1
	over      string // ccons: "cmap" = the concurrently consumed stream is itself a concurrent map (identity mapper) over the source
	cwait     bool   // pipe: after its reads the consumer waits on ITS context (it does not read on): a failing stream must end it
	tail      bool   // the asynchronous stage is the SECOND inner stream of ConcatStreams(empty, stage): opened from emit, under the caller's ctx
	twice     bool   // the source is ConcatStreams(probe stream, probe stream): one provider, two open windows in a row
	outerr    bool   // the source is Concat(stream of streams): the outer stream yields the probe stream, then fails
	ctxbound  bool   // concurrent-consume callbacks (other than the failing one) run until THEIR ctx is cancelled
	ign       bool   // gated callbacks do not look at their ctx: they return (nil) only when the environment releases them
	nowait    bool   // histories: start the next materialisation right after the previous terminal returned
	cerr      bool   // pipe: the consumer returns an error (instead of nil) after its reads
	lcx       int    // extra (no-op) lifecycle elements added on top of the source provider (WithAdditionalLifecycle)
	bare      bool   // the source is a bare provider function (NewSimpleStream(f), no lifecycle elements: no Open, no Close)
	slowret   int    // ms the parked Emit call needs to return after its ctx was cancelled
	firstfull bool   // the FIRST materialisation runs without early stop / failure / cancel / park (it reads the stream to its end)
	lastfull  bool   // the last materialisation runs without early stop / failure / cancel / park: it must deliver everything
}

func parseConcCase(text string) (*concCase, error) {
	f := strings.Fields(text)
	if len(f) == 0 {
		return nil, fmt.Errorf("empty case")
	}
	cc := &concCase{op: f[0], c: 1, size: 2, sync: true, mf: -1, mp: -1, se: -1, park: -1, cancel: -1, reads: -1, trials: 1, rep: 1, slowat: -1}
	for _, kv := range f[1:] {
		k, v, ok := strings.Cut(kv, "=")
		if !ok {
			return nil, fmt.Errorf("bad token %q", kv)
		}
		atoi := func() int { x, _ := strconv.Atoi(v); return x }
		switch k {
		case "c":
			cc.c = atoi()
		case "n":
			cc.n = atoi()
		case "size":
			cc.size = atoi()
		case "sync":
			cc.sync = v == "1"
		case "mg":
			cc.mg = v == "1"
		case "cg":
			cc.cg = v == "1"
		case "sg":
			cc.sg = v == "1"
		case "yield":
			cc.yield = atoi()
		case "limit":
			cc.limit = atoi()
		case "first":
			cc.first = v == "1"
		case "cf":
			cc.cf = atoi()
		case "mf":
			cc.mf = atoi()
		case "mp":
			cc.mp = atoi()
		case "se":
			cc.se = atoi()
		case "park":
			cc.park = atoi()
		case "cancel":
			cc.cancel = atoi()
		case "reads":
			cc.reads = atoi()
		case "filt":
			cc.filt = v
		case "trials":
			cc.trials = atoi()
		case "child":
			cc.child = v == "1"
		case "ofail":
			cc.ofail = v
		case "osat":
			cc.osat = v == "1"
		case "sofail":
			cc.sofail = v == "1"
		case "mwf":
			cc.mwf = v == "1"
		case "cbms":
			cc.cbms = atoi()
		case "slowhold":
			cc.slowhold = atoi()
		case "dl":
			cc.dl = v == "1"
		case "slowat":
			cc.slowat = atoi()
		case "slowms":
			cc.slowms = atoi()
		case "ptr":
			cc.ptr = v == "1"
		case "outerr":
			cc.outerr = v == "1"
		case "twice":
			cc.twice = v == "1"
		case "tail":
			cc.tail = v == "1"
		case "cwait":
			cc.cwait = v == "1"
		case "over":
			cc.over = v
		case "ctxbound":
			cc.ctxbound = v == "1"
		case "ign":
			cc.ign = v == "1"
		case "nowait":
			cc.nowait = v == "1"
		case "cerr":
			cc.cerr = v == "1"
		case "lcx":
			cc.lcx = atoi()
		case "bare":
			cc.bare = v == "1"
		case "slowret":
			cc.slowret = atoi()
		case "lastfull":
			cc.lastfull = v == "1"
		case "firstfull":
			cc.firstfull = v == "1"
		case "rep":
			cc.rep = atoi()
			if cc.rep < 1 {
				cc.rep = 1
			}
		case "script":
			if v != "-" {
				for _, t := range strings.Split(v, ",") {
					x, err := strconv.Atoi(t)
					if err != nil {
						return nil, err
					}
					cc.script = append(cc.script, x)
				}
			}
		default:
			return nil, fmt.Errorf("unknown key %q", k)
		}
	}
	return cc, nil
}

func concErrClass(err error) string {
	switch {
	case err == nil:
		return "ok"
	case errors.Is(err, context.Canceled), errors.Is(err, context.DeadlineExceeded):
		return "ctx" // the caller's context ended (by a cancel call or, `dl=1`, by its deadline)
	case errors.Is(err, errConcUser):
		return "user"
	case strings.Contains(err.Error(), "recovered"):
		return "rec"
	default:
		return "other"
	}
}

const concMapOffset = 1000 // mapped value of element i is i+1000 (a zero value can never be a legitimate result)

// ---------------------------------------------------------------------------------------------------------------
// one run

type concRun struct {
	cc       *concCase
	log      *concLog
	src      *concProbe
	mgate    *concGate // mapper calls / concurrent-consume callbacks
	cgate    *concGate // the sequential consumer callback
	mu       sync.Mutex
	deliv    []int
	cbCalls  int
	cbDone   int  // sequential consumer callbacks that have returned
	cbFailed bool // the sequential consumer callback returned its injected error
	pipeRet  bool // the pipe consumer function is about to return
	filtCall int
	ctx      context.Context
	cancel   context.CancelFunc
	ignore   map[uint64]bool
	base     *stream.Stream[int] // the stream value shared by all materialisations of the case
	lastFrom int                 // index in deliv where the last (full) materialisation starts
}

type concResult struct {
	err      error
	panicked bool
}

// concRunner runs the terminal (its name marks the goroutine for the scanner).
func concRunner(f func() error, started chan<- struct{}, done chan<- concResult) {
	close(started)
	var res concResult
	func() {
		defer func() {
			if r := recover(); r != nil {
				res.panicked = true
			}
		}()
		res.err = f()
	}()
	done <- res
}

func (r *concRun) mapper(ctx context.Context, v int) (int, error) {
	out := r.mgate.enter(ctx, v, r.cc.mg)
	defer r.mgate.leave()
	if out < 0 {
		return 0, ctx.Err()
	}
	if r.cc.mp == v {
		panic(errConcUser)
	}
	if r.cc.mf == v {
		return 0, errConcUser
	}
	return v + concMapOffset, nil
}

func (r *concRun) seqConsumer(ctx context.Context, v int) error {
	r.mu.Lock()
	r.deliv = append(r.deliv, v)
	r.cbCalls++
	k := r.cbCalls
	r.mu.Unlock()
	out := r.cgate.enter(ctx, k, r.cc.cg)
	r.cgate.leave()
	if out < 0 {
		return ctx.Err()
	}
	r.mu.Lock()
	r.cbDone++
	if r.cc.cf == k {
		r.cbFailed = true
	}
	r.mu.Unlock()
	if r.cc.cf == k {
		return errConcUser
	}
	return nil
}

// consumerStopped: the consumer of this materialisation has ended by itself (Limit / FindFirst reached, callback
// error returned, pipe consumer returning).  From then on the library owes the return of the terminal without any
// help from the environment: it has to release a reader that is blocked inside Emit by itself.
func (r *concRun) consumerStopped() bool {
	r.mu.Lock()
	defer r.mu.Unlock()
	cc := r.cc
	switch {
	case r.cbFailed, r.pipeRet:
		return true
	case cc.op == "pipe" || cc.op == "ccons":
		return false
	case cc.first:
		return r.cbDone >= 1
	case cc.limit > 0:
		return r.cbDone >= cc.limit
	}
	return false
}

// concConsumer is the callback of the concurrent consume terminal (runs on worker goroutines).
func (r *concRun) concConsumer(ctx context.Context, v int) error {
	r.mu.Lock()
	r.deliv = append(r.deliv, v)
	r.mu.Unlock()
	if r.cc.ctxbound && r.cc.mf != v && r.cc.mp != v {
		// a long-running callback that honours the context it was given: it returns only when that context is cancelled
		// (after a sibling failed the library must cancel it, nobody else will)
		<-ctx.Done()
		return ctx.Err()
	}
	gctx := ctx
	if r.cc.ign {
		gctx = context.Background() // a callback that finishes its work regardless of the cancellation
	}
	out := r.mgate.enter(gctx, v, r.cc.mg)
	defer r.mgate.leave()
	if out < 0 {
		return ctx.Err()
	}
	if r.cc.cbms > 0 {
		time.Sleep(time.Duration(r.cc.cbms) * time.Millisecond)
	}
	if r.cc.mp == v {
		panic(errConcUser)
	}
	if r.cc.mf == v {
		return errConcUser
	}
	return nil
}

// d7Filter is the D7 / D24 recipe: inside its 2nd call (the 1st when the stream has one element in flight only)
// cancel the caller ctx, wait until the library goroutines have wound down, and answer false so that Filter re-pulls
// without passing the terminal's ctx check.
func (r *concRun) d7Filter(v int) bool {
	r.mu.Lock()
	r.filtCall++
	k := r.filtCall
	r.mu.Unlock()
	if k == 2 {
		r.cancel()
		// wait until only the runner is left or everything is blocked
		deadline := time.Now().Add(500 * time.Millisecond)
		for time.Now().Before(deadline) {
			s := concScan(r.ignore)
			if s.libMade == 0 {
				break
			}
			time.Sleep(50 * time.Microsecond)
		}
	}
	return false
}

func (r *concRun) failingOpen() stream.Lifecycle {
	return stream.NewLifecycle(func(ctx context.Context) error {
		if r.cc.slowret > 0 && r.cc.park >= 0 {
			// history cases: the open fails while the stage's reader goroutine sits inside the source's Emit
			for i := 0; i < 4000 && !r.src.parked.Load(); i++ {
				time.Sleep(50 * time.Microsecond)
			}
		}
		if r.cc.osat {
			// let the stage run until it is stuck on its full buffers: its goroutines then hold results nobody will take, and
			// only the cancellation of the materialisation's context (doOpenStream, on this failure) lets them go
			last, stable := int32(-1), 0
			for i := 0; i < 8000 && stable < 60; i++ {
				if n := r.src.calls.Load(); n == last && n > 0 {
					stable++
				} else {
					last, stable = n, 0
				}
				time.Sleep(50 * time.Microsecond)
			}
		}
		if r.cc.ofail == "panic" {
			panic(errConcUser)
		}
		return errConcUser
	}, nil)
}

// baseStream builds (once per case) the stream value up to and including the asynchronous stage and the optional
// failing lifecycle element; every materialisation of the case uses this same value.
func (r *concRun) baseStream() stream.Stream[int] {
	if r.base != nil {
		return *r.base
	}
	cc := r.cc
	src := stream.NewStream[int](r.src)
	if cc.bare {
		// no lifecycle elements at all: the provider is "open" from the start, is never closed, and keeps its
		// cursor and call count across materialisations
		r.src.log.add(fmt.Sprintf("o%d", r.src.log.g()))
		r.src.opened.Store(true)
		src = stream.NewSimpleStream[int](r.src.Emit)
	}
	if cc.outerr {
		// Concat over a stream of streams whose first element is the probe stream and whose next pull fails (a reader
		// that passes the error on and pulls again must not reach the closed probe provider)
		inner := src
		calls := 0
		src = stream.Concat(stream.NewSimpleStream(func(ctx context.Context) (stream.Stream[int], error) {
			calls++
			if calls == 1 {
				return inner, nil
			}
			return stream.Empty[int](), errConcUser
		}))
	}
	if cc.twice {
		// two passes over one provider: the first window must be closed before the second opens
		src = stream.ConcatStreams(src, src)
	}
	for i := 0; i < cc.lcx; i++ {
		// elements on top of the provider's own: the provider must still be closed only after its reader has left it
		src = src.WithAdditionalLifecycle(stream.NewLifecycle(func(ctx context.Context) error { return nil }, func() {}))
	}
	cmap := func(s stream.Stream[int]) stream.Stream[int] {
		if cc.mwf {
			// map-while-filtering under the concurrent option: exactly the results of the kept elements, whatever the
			// order in which the mapper calls complete
			return stream.MapWhileFilteringWithErrAndCtx(s, func(ctx context.Context, v int) (*int, error) {
				res, err := r.mapper(ctx, v)
				if err != nil {
					return nil, err
				}
				if v%3 == 1 {
					return nil, nil
				}
				return &res, nil
			}, stream.WithConcurrentMapOption(cc.c))
		}
		if cc.ptr {
			// the mapped type is a pointer and nil is a legitimate result (an optional lookup): every result, nil
			// included, must be delivered; nil shows as 999 in the observation
			p := stream.MapWithErrAndCtx(s, func(ctx context.Context, v int) (*int, error) {
				res, err := r.mapper(ctx, v)
				if err != nil {
					return nil, err
				}
				if v%3 == 1 {
					return nil, nil
				}
				return &res, nil
			}, stream.WithConcurrentMapOption(cc.c))
			return stream.Map(p, func(x *int) int {
				if x == nil {
					return concMapOffset - 1
				}
				return *x
			})
		}
		return stream.MapWithErrAndCtx(s, r.mapper, stream.WithConcurrentMapOption(cc.c))
	}
	var b stream.Stream[int]
	switch cc.op {
	case "cmap":
		b = cmap(src)
	case "buf":
		b = stream.Buffered(src, cc.size)
	case "nest":
		b = stream.Buffered(cmap(src), cc.size)
	default:
		b = src
		if cc.op == "ccons" && cc.over == "cmap" {
			b = stream.MapWithErrAndCtx(src, func(ctx context.Context, v int) (int, error) { return v, nil },
				stream.WithConcurrentMapOption(cc.c))
		}
	}
	if cc.tail && cc.op != "ccons" && cc.op != "pipe" {
		// Concat opens its later inner streams while emitting, not while opening: the stage's goroutines must still be
		// stopped and joined when the materialisation ends
		b = stream.ConcatStreams(stream.Empty[int](), b)
	}
	if cc.ofail != "" && cc.op != "ccons" && cc.op != "pipe" {
		b = b.WithAdditionalLifecycle(r.failingOpen())
	}
	r.base = &b
	return b
}

func (r *concRun) build() func() error {
	cc := r.cc
	base := r.baseStream()
	// wrappers with state of their own (Limit counts in a captured variable) are rebuilt for every materialisation
	wrap := func(s stream.Stream[int]) stream.Stream[int] {
		if cc.filt == "d7" {
			s = s.Filter(r.d7Filter)
		}
		if cc.first {
			s = s.Limit(1)
		}
		if cc.limit > 0 {
			s = s.Limit(cc.limit)
		}
		return s
	}
	switch cc.op {
	case "cmap", "buf", "nest":
		s := wrap(base)
		return func() error { return s.ConsumeWithErrAndCtx(r.ctx, r.seqConsumer) }
	case "ccons":
		return func() error {
			return base.ConsumeWithErrAndCtx(r.ctx, r.concConsumer, stream.WithConcurrentConsumeOption(cc.c))
		}
	case "pipe":
		return func() error {
			_, err := jsonstream.StreamJsonAsReaderAndReturn(r.ctx, base, func(ctx context.Context, rd io.Reader) (int, error) {
				buf := make([]byte, 1<<16)
				if cc.reads < 0 {
					total := 0
					for {
						n, err := rd.Read(buf)
						total += n
						r.mu.Lock()
						r.cbCalls++
						r.mu.Unlock()
						if err == io.EOF {
							return total, nil
						}
						if err != nil {
							return total, err
						}
					}
				}
				for i := 0; i < cc.reads; i++ {
					_, err := rd.Read(buf)
					r.mu.Lock()
					r.cbCalls++
					r.mu.Unlock()
					if err == io.EOF {
						return i, nil
					}
					if err != nil {
						return i, err
					}
				}
				if cc.slowret > 0 && cc.park >= 0 {
					// history cases: the consumer returns while the writer goroutine sits inside the source's Emit
					for i := 0; i < 4000 && !r.src.parked.Load(); i++ {
						time.Sleep(50 * time.Microsecond)
					}
				}
				if cc.cwait {
					// a consumer that honours its context and is busy elsewhere (a stalled sink): the helper cancels that
					// context when the stream fails
					<-ctx.Done()
					r.mu.Lock()
					r.pipeRet = true
					r.mu.Unlock()
					return cc.reads, context.Cause(ctx)
				}
				r.mu.Lock()
				r.pipeRet = true
				r.mu.Unlock()
				if cc.cerr {
					return cc.reads, errConcUser
				}
				return cc.reads, nil
			})
			return err
		}
	}
	return func() error { return fmt.Errorf("bad op") }
}

type concObs struct {
	res     string
	deliv   []int
	maxIn   int
	calls   []int
	trace   []string
	plog    string
	leak    int
	hang    string
	flags   string
	emits   int
	closes  int
	lastdel []int
	hasLast bool
}

func fmtInts(l []int) string {
	if len(l) == 0 {
		return "-"
	}
	p := make([]string, len(l))
	for i, v := range l {
		p[i] = strconv.Itoa(v)
	}
	return strings.Join(p, ",")
}

func (o concObs) String() string {
	tr := "-"
	if len(o.trace) > 0 {
		tr = strings.Join(o.trace, ",")
	}
	hang := o.hang
	if hang == "" {
		hang = "-"
	}
	last := ""
	if o.hasLast {
		last = " lastdel=" + fmtInts(o.lastdel)
	}
	return fmt.Sprintf("res=%s del=%s maxin=%d calls=%s emits=%d closes=%d flags=%s leak=%d hang=%s%s trace=%s plog=%s",
		o.res, fmtInts(o.deliv), o.maxIn, fmtInts(o.calls), o.emits, o.closes, o.flags, o.leak, hang, last, tr, o.plog)
}

// after this many hangs in one process the remaining cases are not run any more (a tree on which every case spins
// would otherwise take minutes per property); the skipped cases are reported as hangs
var concHangs atomic.Int32

const concMaxHangs = 6

// concDeadlineCtx: a caller context that ends the way a context with a deadline does - Done() closes and Err() reports
// context.DeadlineExceeded - at the moment the scripted environment chooses (a real timer cannot be scripted). It is not
// linked to its parent's cancellation (no watcher goroutine, which would count as a leftover): the rescue paths end it.
type concDeadlineCtx struct {
	context.Context
	done chan struct{}
	mu   sync.Mutex
	err  error
}

func (c *concDeadlineCtx) Done() <-chan struct{} { return c.done }
func (c *concDeadlineCtx) Err() error {
	c.mu.Lock()
	defer c.mu.Unlock()
	return c.err
}
func (c *concDeadlineCtx) Deadline() (time.Time, bool) { return time.Now().Add(time.Hour), true }

func newConcDeadlineCtx(parent context.Context) (context.Context, context.CancelFunc) {
	c := &concDeadlineCtx{Context: parent, done: make(chan struct{})}
	var once sync.Once
	return c, func() {
		once.Do(func() {
			c.mu.Lock()
			c.err = context.DeadlineExceeded
			c.mu.Unlock()
			close(c.done)
			// contexts derived from a foreign parent are cancelled by watcher goroutines of package context, not in the
			// closing call itself: wait until they have done so, so that "everything is blocked" means what it says
			for i := 0; i < 5000 && concCtxPropagating(); i++ {
				time.Sleep(20 * time.Microsecond)
			}
		})
	}
}

// concCtxPropagating: is a watcher goroutine of package context (propagateCancel) awake?
func concCtxPropagating() bool {
	concScanMu.Lock()
	defer concScanMu.Unlock()
	n := runtime.Stack(concStackBuf, true)
	for n == len(concStackBuf) {
		concStackBuf = make([]byte, 2*len(concStackBuf))
		n = runtime.Stack(concStackBuf, true)
	}
	for _, g := range strings.Split(string(concStackBuf[:n]), "\n\n") {
		if !strings.Contains(g, "propagateCancel") {
			continue
		}
		hdrEnd := strings.IndexByte(g, '\n')
		if hdrEnd < 0 {
			hdrEnd = len(g)
		}
		if !strings.Contains(g[:hdrEnd], "[select") {
			return true
		}
	}
	return false
}

// materialise runs the terminal once on the case's (shared) stream value under the scripted scheduler and returns
// the result class; trace / hang are appended to obs.
func (r *concRun) materialise(root context.Context, rootCancel context.CancelFunc, obs *concObs) string {
	const watchdog = 3 * time.Second
	cc := r.cc
	r.ctx, r.cancel = context.WithCancel(root)
	if cc.dl {
		r.ctx, r.cancel = newConcDeadlineCtx(root)
	}
	r.filtCall = 0
	r.cbCalls = 0
	r.cbDone, r.cbFailed, r.pipeRet = 0, false, false
	term := r.build()
	done := make(chan concResult, 1)
	started := make(chan struct{})
	go concRunner(term, started, done)
	<-started

	var result *concResult
	cancelled := false
	spins := 0
	hang := ""
	for step := 0; result == nil; {
		var snap concSnap
		if cc.sync {
			var ok bool
			snap, ok = concSettle(r.ignore, watchdog)
			if !ok {
				hang = "settle"
				break
			}
		}
		select {
		case res := <-done:
			result = &res
			continue
		default:
		}
		if cc.cancel == step && !cancelled {
			cancelled = true
			r.log.add("x")
			r.cancel()
			obs.trace = append(obs.trace, "x")
			step++
			continue
		}
		// enabled environment actions, canonical order: source, consumer, mapper/consume callbacks ascending
		type act struct {
			kind string
			id   int
		}
		var en []act
		if r.src.gate != nil {
			for _, id := range r.src.gate.inflight() {
				en = append(en, act{"e", id})
			}
		}
		for _, id := range r.cgate.inflight() {
			en = append(en, act{"d", id})
		}
		minf := r.mgate.inflight()
		for _, id := range minf {
			en = append(en, act{"m", id})
		}
		if len(en) == 0 {
			if !cc.sync {
				// free-running: nothing parked right now; wait for something to happen
				select {
				case res := <-done:
					result = &res
				case <-time.After(50 * time.Microsecond):
					spins++
					if spins > 60000 {
						hang = "free"
					}
				}
				if hang != "" {
					break
				}
				continue
			}
			if !snap.runner {
				// the runner is gone: its result is (about to be) in `done`
				select {
				case res := <-done:
					result = &res
				case <-time.After(watchdog):
					hang = "done"
				}
				if hang != "" {
					break
				}
				continue
			}
			if cc.slowhold > 0 && r.src.slowWait.Load() &&
				time.Since(time.Unix(0, r.src.slowSince.Load())) < time.Duration(cc.slowhold)*time.Millisecond {
				// a source that needs a long time to come back from a cancelled call: the terminal has to wait it out
				time.Sleep(5 * time.Millisecond)
				continue
			}
			if r.src.releaseSlow() {
				// the terminal is waiting for its reader, which is slow to leave the provider: let it go now
				continue
			}
			if cc.cancel <= step && r.src.parked.Load() && !cancelled && r.consumerStopped() {
				// the consumer has ended by itself and everything is blocked with the reader inside Emit: the library
				// did not release its reader, the terminal will not return without outside help
				hang = "stopped"
				break
			}
			if (cc.cancel > step || r.src.parked.Load()) && !cancelled {
				// nothing else to do: deliver the scripted cancel now; also when the reader is parked inside Emit
				// for good (park=k): the terminal legitimately waits for its source, the environment cancels
				cancelled = true
				r.log.add("x")
				r.cancel()
				obs.trace = append(obs.trace, "x")
				if cc.cancel > step {
					step = cc.cancel + 1
				}
				continue
			}
			hang = "deadlock" // everything is blocked, nothing is parked on the environment
			if os.Getenv("VERIF_CONC_DEBUG") != "" {
				buf := make([]byte, 1<<20)
				n := runtime.Stack(buf, true)
				fmt.Fprintf(os.Stderr, "DEADLOCK snapshot relevant=%d blocked=%d\n%s\n", snap.relevant, snap.blocked, buf[:n])
			}
			break
		}
		pick := 0
		if step < len(cc.script) {
			pick = cc.script[step] % len(en)
		}
		a := en[pick]
		tok := fmt.Sprintf("%s%d:%d:%d", a.kind, a.id, len(minf), r.src.returned.Load())
		if a.kind == "d" {
			tok = fmt.Sprintf("d:%d:%d", len(minf), r.src.returned.Load())
		}
		obs.trace = append(obs.trace, tok)
		switch a.kind {
		case "e":
			r.log.add(fmt.Sprintf("e%d", a.id))
			r.src.gate.release(a.id, 0)
		case "d":
			r.log.add("d")
			r.cgate.release(a.id, 0)
		case "m":
			r.log.add(fmt.Sprintf("m%d", a.id))
			r.mgate.release(a.id, 0)
		}
		step++
	}
	if hang != "" {
		obs.hang = hang
	}
	if result == nil {
		// rescue: cancel everything so that the process can go on, and say so
		concHangs.Add(1)
		rootCancel()
		r.cancel()
		r.mgate.releaseAll()
		r.cgate.releaseAll()
		if r.src.gate != nil {
			r.src.gate.releaseAll()
		}
		select {
		case res := <-done:
			result = &res
		case <-time.After(watchdog):
		}
		return "hang"
	}
	if result.panicked {
		return "panic"
	}
	return concErrClass(result.err)
}

func concRunOnce(cc *concCase) concObs {
	if concHangs.Load() >= concMaxHangs {
		return concObs{res: "hang", hang: "skipped-after-hangs", flags: "-", plog: "-"}
	}
	base := concScan(nil) // goroutines left over by earlier cases (only after a reported leak) are ignored
	r := &concRun{cc: cc, log: &concLog{}, mgate: newConcGate(), cgate: newConcGate(), ignore: base.ids}
	r.src = &concProbe{n: cc.n, log: r.log, parkAt: cc.park, errAt: cc.se, yield: cc.yield, slowret: cc.slowret, slowRelease: make(chan struct{}, 1), slowAt: cc.slowat, slowMs: cc.slowms, openFail: cc.sofail}
	if cc.sg {
		r.src.gate = newConcGate()
	}
	root, rootCancel := context.WithCancel(context.Background())
	defer rootCancel()

	var obs concObs
	var classes []string
	for i := 0; i < cc.rep; i++ {
		if cc.lastfull && i == cc.rep-1 && cc.rep > 1 {
			// the final materialisation is a plain complete run of the same stream value
			full := *cc
			full.limit, full.first, full.cf, full.mf, full.mp, full.se, full.park, full.cancel = 0, false, 0, -1, -1, -1, -1, -1
			r.cc = &full
			r.src.parkAt, r.src.errAt = -1, -1
			r.mu.Lock()
			r.lastFrom = len(r.deliv)
			r.mu.Unlock()
		}
		if cc.firstfull && cc.rep > 1 {
			if i == 0 {
				// the first materialisation is a plain complete run of the same stream value
				full := *cc
				full.limit, full.first, full.cf, full.mf, full.mp, full.se, full.park, full.cancel = 0, false, 0, -1, -1, -1, -1, -1
				r.cc = &full
				r.src.parkAt, r.src.errAt = -1, -1
			} else if i == 1 {
				r.cc = cc
				r.src.parkAt, r.src.errAt = cc.park, cc.se
			}
		}
		cl := r.materialise(root, rootCancel, &obs)
		classes = append(classes, cl)
		if i > 0 && !(cc.firstfull && i == 1) {
			r.src.releaseSlow() // a reader left behind by an earlier materialisation has met this one by now
		}
		if cl == "hang" {
			break
		}
		if i+1 < cc.rep {
			// the next materialisation starts when the previous one has wound down
			if cc.nowait {
				// goroutines of this materialisation may still be winding down when the next one opens
			} else if left := concQuiesceExcept(r.ignore, time.Second, r.src.slowWait.Load); left > 0 {
				obs.leak += left
			}
			obs.trace = append(obs.trace, "|")
			r.log.add("|")
		}
	}
	obs.res = strings.Join(classes, "/")
	r.src.releaseSlow()
	// after the terminal returned nothing more is released: whatever the library started must exit by itself
	obs.leak += concQuiesce(r.ignore, time.Second)
	if obs.leak > 0 {
		rootCancel()
		r.cancel()
		r.mgate.releaseAll()
		r.cgate.releaseAll()
		if r.src.gate != nil {
			r.src.gate.releaseAll()
		}
		concQuiesce(r.ignore, time.Second)
	}
	r.mu.Lock()
	obs.deliv = append([]int(nil), r.deliv...)
	if cc.lastfull && cc.rep > 1 {
		obs.lastdel = append([]int(nil), r.deliv[r.lastFrom:]...)
		sort.Ints(obs.lastdel)
		obs.hasLast = true
	}
	r.mu.Unlock()
	sort.Ints(obs.deliv)
	obs.maxIn, obs.calls = r.mgate.stats()
	sort.Ints(obs.calls)
	obs.plog = r.log.String()
	obs.emits = int(r.src.returned.Load())
	obs.closes = int(r.src.closes.Load())
	fl := ""
	for _, p := range []struct {
		b *atomic.Bool
		c string
	}{{&r.src.overlap, "O"}, {&r.src.beforeOpen, "B"}, {&r.src.afterClose, "A"}, {&r.src.closeInEmit, "D"}} {
		if p.b.Load() {
			fl += p.c
		}
	}
	if fl == "" {
		fl = "-"
	}
	obs.flags = fl
	return obs
}

// execConc is the Exec of the three asynchronous families.
func execConc(prop string) func(string) string {
	return func(caseText string) (out string) {
		defer func() {
			if r := recover(); r != nil {
				out = fmt.Sprintf("res=harness-panic %v", r)
			}
		}()
		cc, err := parseConcCase(caseText)
		if err != nil {
			return "bad-case " + err.Error()
		}
		// outside a child process (corpus / replay files) every case runs in a child of its own: a crash of the
		// code under test (a panic on a library goroutine) is then an observation, not the end of the run
		if os.Getenv("VERIF_CONC_CHILD") == "" && os.Getenv("VERIF_CONC_INPROC") == "" {
			return concChild(prop, caseText)
		}
		if cc.trials > 1 {
			// racy recipe: count the outcomes over many trials (the counts of the bad classes are what is compared)
			counts := map[string]int{}
			leaks := 0
			for i := 0; i < cc.trials; i++ {
				o := concRunOnce(cc)
				counts[o.res]++
				if o.leak > 0 || o.hang != "" {
					leaks++
					if os.Getenv("VERIF_CONC_DEBUG") != "" {
						fmt.Fprintln(os.Stderr, "trial", i, o.String())
					}
				}
			}
			return fmt.Sprintf("trials=%d ok=%d other=%d leakhang=%d", cc.trials, counts["ok"],
				cc.trials-counts["ok"]-counts["ctx"], leaks)
		}
		return concRunOnce(cc).String()
	}
}

// concChild re-executes this binary on the single case so that a crash of the code under test is an observation.
func concChild(prop, caseText string) string {
	f, err := os.CreateTemp("", "conc-child-*.case")
	if err != nil {
		return "res=child-failed " + err.Error()
	}
	defer os.Remove(f.Name())
	fmt.Fprintf(f, "case T %s\n", caseText)
	f.Close()
	ctx, cancel := context.WithTimeout(context.Background(), 30*time.Second)
	defer cancel()
	cmd := exec.CommandContext(ctx, os.Args[0], "-prop", prop, "-replay", f.Name())
	cmd.Env = append(os.Environ(), "VERIF_CONC_CHILD=1", "GOMEMLIMIT=1GiB")
	if os.Getenv("VERIF_CONC_DEBUG") != "" {
		cmd.Stderr = os.Stderr
	}
	outb, err := cmd.Output()
	for _, line := range strings.Split(string(outb), "\n") {
		if strings.HasPrefix(line, "obs ") {
			return strings.TrimPrefix(line, "obs ")
		}
	}
	if err != nil {
		return "res=crash"
	}
	return "res=child-no-output"
}

// ---------------------------------------------------------------------------------------------------------------
// crash-proof generation: the generated cases of a run are executed in ONE re-exec'd child process; only if that
// child dies (a mutation that makes a library goroutine panic kills the process) every case is re-run in a child of
// its own, so that the crashing case is reported as an observation (`res=crash`) with its case line.

type concGenCase struct {
	nontrivial bool
	text       string
}

func concParsePairs(out string) map[string]string {
	res := map[string]string{}
	var cur string
	for _, line := range strings.Split(out, "\n") {
		if strings.HasPrefix(line, "case ") {
			rest := strings.TrimPrefix(line, "case ")
			if len(rest) > 2 {
				cur = rest[2:]
			}
		} else if strings.HasPrefix(line, "obs ") && cur != "" {
			res[cur] = strings.TrimPrefix(line, "obs ")
			cur = ""
		}
	}
	return res
}

func concRunChild(prop string, texts []string, timeout time.Duration) (map[string]string, error) {
	f, err := os.CreateTemp("", "conc-batch-*.case")
	if err != nil {
		return nil, err
	}
	defer os.Remove(f.Name())
	for _, t := range texts {
		fmt.Fprintf(f, "case T %s\n", t)
	}
	f.Close()
	ctx, cancel := context.WithTimeout(context.Background(), timeout)
	defer cancel()
	cmd := exec.CommandContext(ctx, os.Args[0], "-prop", prop, "-replay", f.Name())
	cmd.Env = append(os.Environ(), "VERIF_CONC_CHILD=1")
	outb, err := cmd.Output()
	return concParsePairs(string(outb)), err
}

func concEmitAll(c *Ctx, prop string, cases []concGenCase) {
	if os.Getenv("VERIF_CONC_CHILD") != "" || os.Getenv("VERIF_CONC_INPROC") != "" {
		for _, gc := range cases {
			c.Case(gc.nontrivial, gc.text)
		}
		return
	}
	texts := make([]string, len(cases))
	for i, gc := range cases {
		texts[i] = gc.text
	}
	res, err := concRunChild(prop, texts, 40*time.Minute)
	if err == nil && len(res) > 0 {
		for _, gc := range cases {
			obs, ok := res[gc.text]
			if !ok {
				obs = "res=child-no-output"
			}
			c.Raw(gc.nontrivial, gc.text, obs)
		}
		return
	}
	// the batch died: isolate
	for _, gc := range cases {
		r1, err1 := concRunChild(prop, []string{gc.text}, 60*time.Second)
		obs, ok := r1[gc.text]
		if !ok {
			obs = "res=crash"
			if err1 == nil {
				obs = "res=child-no-output"
			}
		}
		c.Raw(gc.nontrivial, gc.text, obs)
	}
}
