package run

import (
	"fmt"
	"math"
	"strconv"
	"strings"
	"time"
)

// Helpers shared by the C14 / C15 runners (owned by the C14/C15 builder).
// Floats travel as the 16 hex digits of math.Float64bits, timestamps as unix nanoseconds.

func fbits1415(f float64) string { return fmt.Sprintf("%016x", math.Float64bits(f)) }

func parseFbits1415(s string) (float64, error) {
	if len(s) != 16 {
		return 0, fmt.Errorf("bad float bits %q", s)
	}
	u, err := strconv.ParseUint(s, 16, 64)
	if err != nil {
		return 0, err
	}
	return math.Float64frombits(u), nil
}

// locs1415: Location objects a timestamp may be carried in (id = index). Instants are what matters.
var locs1415 = func() []*time.Location {
	out := []*time.Location{time.UTC, time.FixedZone("P0530", 5*3600+1800), time.FixedZone("M0800", -8*3600), time.FixedZone("UTCtwin", 0)}
	for _, n := range []string{"America/New_York", "Asia/Kolkata"} {
		if l, err := time.LoadLocation(n); err == nil {
			out = append(out, l)
		} else {
			out = append(out, time.FixedZone(n, 3600))
		}
	}
	return out
}()

// rec1415 is one parsed record "t:v" / "t@L:v".
type rec1415 struct {
	T   int64
	Loc int
	V   string
}

// zeroBase1415: the timestamps of the running case count from Go's zero instant (0001-01-01T00:00:00Z, the zero value of
// time.Time) instead of the Unix epoch (`dsz` / `adz` cases of C15: a series may legitimately begin there). The zero instant
// is a whole number of days before the epoch, so fixed periods dividing a day fall on the same offsets.
var zeroBase1415 bool

func (r rec1415) Time() time.Time {
	l := locs1415[r.Loc%len(locs1415)]
	if zeroBase1415 {
		return time.Time{}.Add(time.Duration(r.T)).In(l)
	}
	return time.Unix(0, r.T).In(l)
}

// nanos1415: the instant as the case counts it
func nanos1415(t time.Time) int64 {
	if zeroBase1415 {
		return int64(t.Sub(time.Time{}))
	}
	return t.UnixNano()
}

func parseRecs1415(s string) ([]rec1415, error) {
	if s == "-" {
		return nil, nil
	}
	var out []rec1415
	for _, p := range strings.Split(s, ",") {
		tv := strings.Split(p, ":")
		if len(tv) != 2 {
			return nil, fmt.Errorf("bad record %q", p)
		}
		loc := 0
		ts := tv[0]
		if a, b, ok := strings.Cut(ts, "@"); ok {
			l, err := strconv.Atoi(b)
			if err != nil || l < 0 {
				return nil, fmt.Errorf("bad loc %q", p)
			}
			loc, ts = l, a
		}
		t, err := strconv.ParseInt(ts, 10, 64)
		if err != nil {
			return nil, err
		}
		out = append(out, rec1415{T: t, Loc: loc, V: tv[1]})
	}
	return out, nil
}

// errClass1415 maps an error of the anchored code to its canonical class (same names as Err.str in the Lean model).
func errClass1415(err error) string {
	if err == nil {
		return "nil"
	}
	m := err.Error()
	for _, kv := range [][2]string{
		{"is not after previous item timestamp", "not-after"},
		{"cluster stream is not sorted", "cluster-not-sorted"},
		{"v1Time and v2Time are the same", "twa-same-time"},
		{"is out of bounds", "twa-out-of-bounds"},
		{"is empty", "empty-cluster"},
		{"time difference is zero", "time-diff-zero"},
		{"is not sorted", "join-not-sorted"},
		{"no datasources to reduce", "no-datasources"},
		{"must be numeric", "not-numeric"},
		{"can only be applied to numeric", "not-numeric"},
		{"must be required", "not-required"},
		{"can only be applied to required", "not-required"},
		{"must have the same data type", "type-mismatch"},
		{"some fields not found", "fields-not-found"},
		{"no fields to reduce", "no-fields"},
		{"interface conversion", "panic-type"},
		{"index out of range", "panic-index"},
	} {
		if strings.Contains(m, kv[0]) {
			return kv[1]
		}
	}
	return "other:" + strings.ReplaceAll(strings.ReplaceAll(m, "\n", " "), " ", "_")
}

// tagVal1415 prints a dynamic row value with its Go type: i<int64> | f<float64 bits> | x<type>.
func tagVal1415(v any) string {
	switch x := v.(type) {
	case int64:
		return "i" + strconv.FormatInt(x, 10)
	case float64:
		return "f" + fbits1415(x)
	default:
		return fmt.Sprintf("x%T", v)
	}
}

// guard1415 runs f, turning a panic into an observation.
func guard1415(f func() string) (out string) {
	defer func() {
		if r := recover(); r != nil {
			out = "panic " + strings.ReplaceAll(fmt.Sprint(r), " ", "_")
		}
	}()
	return f()
}
