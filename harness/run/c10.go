package run

// C10: query planning/typing of tsquery (report + datasource packages) and the operator tables.
// Case grammar and observation format: notes/C10-protocol.md. This file also holds the case generator that is
// shared with C11 (c11.go).

import (
	"fmt"
	"math"
	"os"
	"sort"
	"strconv"
	"strings"
	"time"

	"github.com/shpandrak/shpanstream/utils/timeseries/tsquery"
)

func init() {
	Register("C10", Family{Gen: genC10, Exec: execC10})
}

func execC10(caseText string) string {
	obs, _ := execC10X(caseText)
	return obs
}

func execC10X(caseText string) (string, bool) {
	toks, err := qTokens(caseText)
	if err != nil {
		return "bad-case", false
	}
	switch toks[0] {
	case "q":
		return execQLineX(toks)
	case "tbl":
		return execTbl(toks), false
	case "X":
		return execXLineX(toks)
	}
	return "bad-case", false
}

// ---------------------------------------------------------------------------------------------------------------
// tbl lines: the operator tables of the tsquery package

func execTbl(toks []string) (obs string) {
	defer func() {
		if r := recover(); r != nil {
			obs = "planpanic"
		}
	}()
	if len(toks) < 3 {
		return "bad-case"
	}
	switch toks[1] {
	case "bin":
		if len(toks) != 4 {
			return "bad-case"
		}
		op, ok := qBopByName[toks[2]]
		dt, err := qDtAtom(toks[3])
		if !ok || err != nil {
			return "bad-case"
		}
		f, ferr := op.GetFuncImpl(dt)
		if ferr != nil {
			return "reject"
		}
		switch toks[3] {
		case "int":
			return "ok " + qFmtCell(f(int64(7), int64(2)), false)
		case "dec":
			return "ok " + qFmtCell(f(7.5, 2.0), false)
		}
		return "ok x:unexpected"
	case "un":
		if len(toks) != 4 {
			return "bad-case"
		}
		op, ok := qUopByName[toks[2]]
		dt, err := qDtAtom(toks[3])
		if !ok || err != nil {
			return "bad-case"
		}
		f, ferr := op.GetFuncImpl(dt)
		if ferr != nil {
			return "reject"
		}
		switch toks[3] {
		case "int":
			return "ok " + qFmtCell(f(int64(9)), qTranscendental[toks[2]])
		case "dec":
			return "ok " + qFmtCell(f(2.25), qTranscendental[toks[2]])
		}
		return "ok x:unexpected"
	case "cond":
		if len(toks) != 4 {
			return "bad-case"
		}
		op, ok := qCopByName[toks[2]]
		dt, err := qDtAtom(toks[3])
		if !ok || err != nil {
			return "bad-case"
		}
		f, ferr := op.GetFuncImpl(dt)
		if ferr != nil {
			return "reject"
		}
		switch toks[3] {
		case "int":
			return "ok " + qFmtCell(f(int64(7), int64(2)), false)
		case "dec":
			return "ok " + qFmtCell(f(7.5, 2.0), false)
		case "str":
			return "ok " + qFmtCell(f("a", "b"), false)
		case "bool":
			return "ok " + qFmtCell(f(true, false), false)
		}
		return "ok x:unexpected"
	case "cast":
		if len(toks) != 4 {
			return "bad-case"
		}
		dt1, err1 := qDtAtom(toks[2])
		dt2, err2 := qDtAtom(toks[3])
		if err1 != nil || err2 != nil {
			return "bad-case"
		}
		f, ferr := tsquery.GetCastFuncForDataType(dt1, dt2)
		if ferr != nil {
			return "reject"
		}
		var sample any
		switch toks[2] {
		case "int":
			sample = int64(42)
		case "dec":
			sample = 2.5
		case "str":
			sample = "17"
		case "bool":
			sample = true
		case "ts":
			sample = time.Unix(0, 5).UTC()
		}
		v, cerr := f(sample)
		if cerr != nil {
			return "ok casterr"
		}
		return "ok " + qFmtCell(v, false)
	case "red":
		if len(toks) != 4 {
			return "bad-case"
		}
		rt, ok := qRtByName[toks[2]]
		dt, err := qDtAtom(toks[3])
		if !ok || err != nil {
			return "bad-case"
		}
		fn, ferr := rt.GetReducerFunc(dt)
		if ferr != nil {
			return "reject"
		}
		cell := "-"
		switch toks[3] {
		case "int":
			cell = qFmtCell(fn([]any{int64(7), int64(2), int64(9)}), false)
		case "dec":
			cell = qFmtCell(fn([]any{7.5, 2.0, 9.25}), false)
		}
		return "ok " + qDtName(rt.GetResultDataType(dt)) + " " + qB01(rt.UseIdentityWhenSingleValue()) + " " + cell
	case "dtype":
		if len(toks) != 3 {
			return "bad-case"
		}
		dt, err := qDtAtom(toks[2])
		if err != nil {
			return "bad-case"
		}
		return "ok valid=" + qB01(dt.Validate() == nil) + " numeric=" + qB01(dt.IsNumeric())
	}
	return "bad-case"
}

// ---------------------------------------------------------------------------------------------------------------
// case text helpers

func qT(parts ...string) string { return "( " + strings.Join(parts, " ") + " )" }

func qQ(s string) string { return "'" + s }

var (
	qDts      = []string{"int", "dec", "str", "bool", "ts"}
	qDtsBogus = []string{"int", "dec", "str", "bool", "ts", "bogus"}
	qCops     = []string{"eq", "ne", "gt", "lt", "ge", "le", "bogus"}
	qBops     = []string{"add", "sub", "mul", "div", "mod", "bogus"}
	qUops     = []string{"abs", "neg", "sqrt", "ceil", "floor", "round", "log", "log10", "exp", "sin", "cos", "tan", "bogus"}
	qLops     = []string{"and", "or", "bogus"}
	qRts      = []string{"sum", "avg", "min", "max", "count", "bogus"}
	qUrnPool  = []string{"a", "b", "c", "d", "e", "f", "g", "h", "x", "y", "T:f"}
	qStrPool  = []string{"", "abc", "12", "-7", "+5", "3.5", "-0.25", "1e2", "007", "1_000", "0x10", "Inf", "NaN",
		"9223372036854775808", "1.5.2", ".5", "5.", "true", "T", "x"}
	qUnits = []string{"", "kb", "s"}
)

type qcol struct {
	urn  string
	dt   string
	req  bool
	unit string
}

type qvt struct {
	dt   string
	req  bool
	unit string
}

func qDecCell(k int) string {
	f := float64(k) / 8
	if k == 0 {
		f = 0 // never -0 as an input
	}
	return fmt.Sprintf("d:%016x", math.Float64bits(f))
}

func qVm(dt string, req bool, unit, cm string) string { return qT("vm", dt, qB01(req), qQ(unit), cm) }
func qAfm(urn, ounit, cm string) string               { return qT("afm", qQ(urn), qQ(ounit), cm) }
func qFmText(c qcol, cm string) string                { return qT("fm", qQ(c.urn), c.dt, qB01(c.req), qQ(c.unit), cm) }

// ---------------------------------------------------------------------------------------------------------------
// random generator (phase 2), type-directed

const (
	qFarBelow = int64(-5_000_000_000)
	qFarAbove = int64(20_000_000_000)
)

type qgen struct {
	r          *Rng
	dsMode     bool // values are datasource-package values: ( ref ) has no urn
	mut        int  // remaining ill-typing mutations
	urnSeq     []string
	urnPos     int
	extra      int
	allTs      []int64
	nonconf    bool // a non-conforming table is still to be injected
	didNonconf bool
	tw         bool  // generating a tw pipeline: override is frequent
	grid       []int // the grid points most tables of this case draw their row keys from (so joins find partners)
}

func (g *qgen) reset() {
	g.dsMode, g.mut, g.urnPos, g.extra, g.allTs, g.nonconf, g.didNonconf, g.tw = false, 0, 0, 0, nil, false, false, false
	g.urnSeq = append(g.urnSeq[:0], qUrnPool...)
	for i := len(g.urnSeq) - 1; i > 0; i-- {
		j := g.r.Intn(i + 1)
		g.urnSeq[i], g.urnSeq[j] = g.urnSeq[j], g.urnSeq[i]
	}
	g.grid = g.grid[:0]
	for k := 0; k < 13; k++ {
		g.grid = append(g.grid, k)
	}
	for i := 0; i < 6; i++ {
		j := i + g.r.Intn(13-i)
		g.grid[i], g.grid[j] = g.grid[j], g.grid[i]
	}
	g.grid = g.grid[:6]
}

func (g *qgen) fresh() string {
	if g.urnPos < len(g.urnSeq) {
		g.urnPos++
		return g.urnSeq[g.urnPos-1]
	}
	g.extra++
	return "u" + strconv.Itoa(g.extra)
}

func (g *qgen) fire() bool {
	return g.fireN(5)
}

// fireN spends the mutation budget with probability 1/n.
func (g *qgen) fireN(n int) bool {
	if g.mut > 0 && g.r.Intn(n) == 0 {
		g.mut--
		return true
	}
	return false
}

// fireRare: a mutation of the INPUT tables (refused before anything is planned), kept infrequent.
func (g *qgen) fireRare() bool {
	return g.fireN(40)
}

func (g *qgen) pick(l []string) string { return l[g.r.Intn(len(l))] }

// weighted picks an index by integer weights.
func (g *qgen) weighted(w ...int) int {
	t := 0
	for _, x := range w {
		t += x
	}
	n := g.r.Intn(t)
	for i, x := range w {
		if n < x {
			return i
		}
		n -= x
	}
	return len(w) - 1
}

func (g *qgen) anyDt() string { return qDts[g.weighted(30, 25, 15, 20, 10)] }

// prefDt prefers the data type of one of the columns in scope, so that refs are usable often.
func (g *qgen) prefDt(env []qcol) string {
	if len(env) > 0 && g.r.Intn(100) < 55 {
		return env[g.r.Intn(len(env))].dt
	}
	return g.anyDt()
}

func (g *qgen) otherDt(dt string) string {
	for {
		d := g.anyDt()
		if d != dt {
			return d
		}
	}
}

func (g *qgen) unit() string { return qUnits[g.weighted(60, 20, 20)] }

func (g *qgen) otherUnit(u string) string {
	for {
		x := g.pick(qUnits)
		if x != u {
			return x
		}
	}
}

func (g *qgen) ounit() string {
	if g.r.Intn(4) == 0 {
		return g.pick(qUnits[1:])
	}
	return ""
}

func (g *qgen) cm() string {
	switch g.weighted(50, 10, 25, 15) {
	case 0:
		return "nil"
	case 1:
		return "( cm )"
	case 2:
		return "( cm 'k 'v )"
	}
	return "( cm 'k 'w 'z 'q )"
}

func (g *qgen) cm3() string { // nil / empty / non-empty with equal weight
	switch g.r.Intn(3) {
	case 0:
		return "nil"
	case 1:
		return "( cm )"
	}
	if g.r.Bool() {
		return "( cm 'k 'v )"
	}
	return "( cm 'k 'w 'z 'q )"
}

// nrows: 0..5 rows, the empty table kept infrequent.
func (g *qgen) nrows() int { return g.weighted(6, 12, 20, 22, 22, 18) }

func (g *qgen) depth() int { return g.weighted(25, 35, 25, 15) }

func (g *qgen) intCell() string {
	switch g.r.Intn(40) {
	case 0:
		return "i:" + strconv.FormatInt(math.MinInt64, 10)
	case 1:
		return "i:" + strconv.FormatInt(math.MaxInt64, 10)
	case 2:
		return "i:" + strconv.FormatInt(1<<53+1, 10)
	case 3, 4, 5, 6, 7:
		return "i:0"
	}
	return "i:" + strconv.Itoa(g.r.Range(-20, 20))
}

func (g *qgen) cell(dt string) string {
	switch dt {
	case "int":
		return g.intCell()
	case "dec":
		if g.r.Intn(25) == 0 {
			// large and tiny magnitudes (positional vs exponent formatting, precision of conversions)
			xs := []float64{1e6, -2.5e6, 123456789.25, 1e-5, -2.5e-5, 1e21, 1.5e-7, 9007199254740993, 0.1, 1e15 + 0.5}
			return fmt.Sprintf("d:%016x", math.Float64bits(xs[g.r.Intn(len(xs))]))
		}
		return qDecCell(g.r.Range(-80, 80))
	case "str":
		return qQ(g.pick(qStrPool))
	case "bool":
		if g.r.Bool() {
			return "b:1"
		}
		return "b:0"
	case "ts":
		return "t:" + strconv.FormatInt(int64(g.r.Intn(13))*1_000_000_000, 10)
	}
	return "nil"
}

// tsList returns n strictly increasing row keys on the grid k*1e9 (+5e8 when half), k in 0..12.
func (g *qgen) tsList(n int, half bool) []int64 {
	used := map[int]bool{}
	ks := make([]int, 0, n)
	for len(ks) < n {
		k := g.r.Intn(13)
		if len(g.grid) > 0 && g.r.Intn(10) < 8 {
			k = g.grid[g.r.Intn(len(g.grid))]
		}
		if !used[k] {
			used[k] = true
			ks = append(ks, k)
		}
	}
	sort.Ints(ks)
	out := make([]int64, n)
	for i, k := range ks {
		out[i] = int64(k) * 1_000_000_000
		if half {
			out[i] += 500_000_000
		}
	}
	g.allTs = append(g.allTs, out...)
	return out
}

func (g *qgen) randCol(urn string) qcol {
	return qcol{urn: urn, dt: g.anyDt(), req: g.r.Bool(), unit: g.unit()}
}

// tableRows prints the rows of a table with the given columns; cells conform to the schema unless a pending
// non-conformance is injected here.
func (g *qgen) tableRows(cols []qcol, tss []int64) string {
	rows := make([][]string, len(tss))
	for i := range tss {
		rows[i] = make([]string, len(cols))
		for j, c := range cols {
			if !c.req && g.r.Intn(3) == 0 {
				rows[i][j] = "nil"
			} else {
				rows[i][j] = g.cell(c.dt)
			}
		}
	}
	if g.nonconf && len(tss) > 0 && len(cols) > 0 {
		i, j := g.r.Intn(len(tss)), g.r.Intn(len(cols))
		switch g.r.Intn(3) {
		case 0: // wrong Go type in a cell
			rows[i][j] = g.cell(g.otherDt(cols[j].dt))
			g.nonconf, g.didNonconf = false, true
		case 1: // nil in a required column
			for jj, c := range cols {
				if c.req {
					rows[i][jj] = "nil"
					g.nonconf, g.didNonconf = false, true
					break
				}
			}
		default: // a short row (report tables only; a dstatic row always has exactly one cell)
			if len(cols) > 1 {
				rows[i] = rows[i][:len(cols)-1]
				g.nonconf, g.didNonconf = false, true
			}
		}
	}
	parts := []string{"rows"}
	for i, ts := range tss {
		parts = append(parts, qT(append([]string{"r", strconv.FormatInt(ts, 10)}, rows[i]...)...))
	}
	return qT(parts...)
}

// rstatic generates a random report table; forcedUrn (if not empty) is used for the first column.
func (g *qgen) rstatic(maxCols int, forcedUrn string) (string, []qcol) {
	n := g.r.Range(1, maxCols)
	cols := make([]qcol, n)
	metas := []string{"metas"}
	for i := range cols {
		urn := g.fresh()
		if i == 0 && forcedUrn != "" {
			urn = forcedUrn
		}
		cols[i] = g.randCol(urn)
	}
	textCols := append([]qcol(nil), cols...)
	if g.fireRare() {
		switch g.r.Intn(4) {
		case 0: // duplicate urn in the metas
			if n >= 2 {
				textCols[n-1].urn = textCols[0].urn
			} else {
				textCols[0].dt = "bogus"
			}
		case 1:
			textCols[g.r.Intn(n)].urn = ""
		case 2:
			textCols[g.r.Intn(n)].dt = "bogus"
		default: // no metas at all
			textCols = nil
		}
	}
	for _, c := range textCols {
		metas = append(metas, qFmText(c, g.cm()))
	}
	tss := g.tsList(g.nrows(), false)
	return qT("rstatic", qT(metas...), g.tableRows(cols, tss)), cols
}

// dstaticCol generates a datasource table for the given column.
func (g *qgen) dstaticCol(c qcol, nrows int, half bool, cm string) string {
	tc := c
	if g.fireRare() {
		if g.r.Bool() {
			tc.urn = ""
		} else {
			tc.dt = "bogus"
		}
	}
	tss := g.tsList(nrows, half)
	return qT("dstatic", qFmText(tc, cm), g.tableRows([]qcol{c}, tss))
}

func (g *qgen) dstatic() (string, qcol) {
	c := g.randCol(g.fresh())
	return g.dstaticCol(c, g.nrows(), false, g.cm()), c
}

// ---- values

func (g *qgen) refText(c qcol) string {
	if g.dsMode {
		return "( ref )"
	}
	return qT("ref", qQ(c.urn))
}

func (g *qgen) constant(dt string, wreq int, wunit *string) (string, qvt) {
	req := wreq == 1 || (wreq == 0 && g.r.Bool())
	unit := g.unit()
	if wunit != nil {
		unit = *wunit
	}
	cell := g.cell(dt)
	if !req && g.r.Bool() {
		cell = "nil"
	}
	vdt := dt
	if g.fire() {
		switch g.r.Intn(3) {
		case 0: // required constant without a value
			req, cell = true, "nil"
		case 1: // payload that cannot be converted
			switch dt {
			case "int", "dec":
				cell = "b:1"
			case "bool", "ts":
				cell = "i:1"
			default:
				req, cell = true, "nil"
			}
		default:
			vdt = "bogus"
		}
	} else if cell != "nil" && g.r.Intn(40) == 0 {
		// convertible (or not) payload of another Go type; never a non-string payload under str
		// (fmt "%s" of a non-string prints parentheses / spaces, which the line protocol cannot carry)
		switch dt {
		case "int":
			if g.r.Bool() {
				cell = qDecCell(g.r.Range(-80, 80))
			} else {
				cell = qQ(g.pick(qStrPool))
			}
		case "dec":
			if g.r.Bool() {
				cell = "i:" + strconv.Itoa(g.r.Range(-20, 20))
			} else {
				cell = qQ(g.pick(qStrPool))
			}
		case "bool", "ts":
			cell = qQ(g.pick(qStrPool))
		}
	}
	return qT("const", qVm(vdt, req, unit, g.cm()), cell), qvt{dt, req, unit}
}

func (g *qgen) leaf(env []qcol, dt string, wreq int, wunit *string) (string, qvt) {
	var cands []qcol
	seen := map[string]bool{}
	for _, c := range env {
		if seen[c.urn] {
			continue // the library resolves a urn to its first occurrence
		}
		seen[c.urn] = true
		if c.dt != dt || (wreq == 1 && !c.req) || (wreq == 2 && c.req) || (wunit != nil && c.unit != *wunit) {
			continue
		}
		cands = append(cands, c)
	}
	if len(cands) > 0 && g.r.Intn(10) < 7 {
		c := cands[g.r.Intn(len(cands))]
		if !g.dsMode && g.fire() {
			return "( ref 'zz )", qvt{c.dt, c.req, c.unit}
		}
		return g.refText(c), qvt{c.dt, c.req, c.unit}
	}
	return g.constant(dt, wreq, wunit)
}

func qReqPair(g *qgen, wreq int) (int, int) {
	switch wreq {
	case 1:
		return 1, 1
	case 2:
		if g.r.Bool() {
			return 2, 0
		}
		return 0, 2
	}
	return 0, 0
}

// val builds a value of data type dt (""=any), required status wreq (0 any, 1 required, 2 optional) and unit
// wunit (nil = any) that is well-typed by construction, unless a mutation fires.
func (g *qgen) val(env []qcol, dt string, wreq int, wunit *string, depth int) (string, qvt) {
	if dt == "" {
		dt = g.anyDt()
	}
	if g.fire() {
		switch g.r.Intn(3) {
		case 0:
			dt = g.otherDt(dt)
		case 1:
			if wreq == 1 {
				wreq = 2
			} else {
				dt = g.otherDt(dt)
			}
		default:
			if wunit != nil {
				u := g.otherUnit(*wunit)
				wunit = &u
			} else if wreq == 1 {
				wreq = 2
			} else {
				dt = g.otherDt(dt)
			}
		}
	}
	if depth <= 0 || g.r.Intn(4) == 0 {
		return g.leaf(env, dt, wreq, wunit)
	}
	var k int // 0 cond 1 logic 2 nvl 3 sel 4 cast 5 num 6 un 7 reduce
	switch dt {
	case "bool":
		k = []int{0, 1, 2, 3, 4}[g.weighted(45, 25, 10, 10, 5)]
	case "int", "dec":
		k = []int{5, 6, 4, 2, 3, 7}[g.weighted(35, 20, 15, 10, 8, 12)]
	case "str":
		k = []int{4, 2, 3}[g.weighted(50, 25, 25)]
	default:
		k = []int{2, 3, 4}[g.weighted(40, 40, 20)]
	}
	noUnit := wunit != nil && *wunit != ""
	switch k {
	case 0: // cond
		if noUnit {
			break
		}
		odt := []string{"int", "dec", "str", "bool"}[g.weighted(35, 30, 15, 20)]
		if p := g.prefDt(env); p != "ts" {
			odt = p
		}
		ops := qCops[:2]
		if odt == "int" || odt == "dec" {
			ops = qCops[:6]
		}
		op := g.pick(ops)
		if g.fire() {
			switch g.r.Intn(3) {
			case 0:
				op = "bogus"
			case 1:
				op, odt = "gt", g.pick([]string{"str", "bool"})
			default:
				odt = "ts"
			}
		}
		r1, r2 := qReqPair(g, wreq)
		a, ta := g.val(env, odt, r1, nil, depth-1)
		b, tb := g.val(env, odt, r2, nil, depth-1)
		return qT("cond", op, a, b), qvt{"bool", ta.req && tb.req, ""}
	case 1: // logic
		if noUnit || wreq == 2 {
			break
		}
		op := g.pick(qLops[:2])
		if g.fire() {
			op = "bogus"
		}
		a, _ := g.val(env, "bool", 1, nil, depth-1)
		b, _ := g.val(env, "bool", 1, nil, depth-1)
		return qT("logic", op, a, b), qvt{"bool", true, ""}
	case 2: // nvl
		if wreq == 2 {
			break
		}
		sreq := 2
		if g.r.Intn(10) < 3 {
			sreq = 0
		}
		a, ta := g.val(env, dt, sreq, wunit, depth-1)
		b, _ := g.val(env, dt, 1, nil, depth-1)
		return qT("nvl", a, b), qvt{dt, true, ta.unit}
	case 3: // sel
		s, _ := g.val(env, "bool", 1, nil, depth-1)
		a, ta := g.val(env, dt, wreq, wunit, depth-1)
		fr := 2
		if ta.req {
			fr = 1
		}
		u := ta.unit
		b, _ := g.val(env, dt, fr, &u, depth-1)
		return qT("sel", s, a, b), qvt{dt, ta.req, ta.unit}
	case 4: // cast
		var sdt string
		switch dt {
		case "int":
			sdt = []string{"dec", "str", "int"}[g.weighted(55, 30, 15)]
		case "dec":
			sdt = []string{"int", "str", "dec"}[g.weighted(55, 30, 15)]
		case "str":
			sdt = []string{"int", "dec", "str"}[g.weighted(45, 45, 10)]
		default:
			sdt = dt
		}
		tgt := dt
		if g.fire() {
			if g.r.Bool() {
				tgt = "bogus"
			} else {
				sdt = g.pick([]string{"bool", "ts"})
				if sdt == dt {
					tgt = "int"
				}
			}
		}
		a, ta := g.val(env, sdt, wreq, wunit, depth-1)
		return qT("cast", a, tgt), qvt{dt, ta.req, ta.unit}
	case 5: // num
		// div (and mod for integers) twice as likely as the others: division by zero must occur
		ops := []string{"add", "sub", "mul", "div", "div"}
		if dt == "int" {
			ops = []string{"add", "sub", "mul", "div", "div", "mod", "mod"}
		}
		op := g.pick(ops)
		if g.fire() {
			if g.r.Bool() || dt == "int" {
				op = "bogus"
			} else {
				op = "mod"
			}
		}
		r1, r2 := qReqPair(g, wreq)
		a, ta := g.val(env, dt, r1, wunit, depth-1)
		bu := wunit
		if bu == nil && g.r.Intn(10) < 6 {
			u := ta.unit
			bu = &u
		}
		b, tb := g.val(env, dt, r2, bu, depth-1)
		if (op == "div" || op == "mod") && r2 != 2 && g.r.Intn(5) == 0 { // an explicit zero divisor
			zero := "i:0"
			if dt == "dec" {
				zero = qDecCell(0)
			}
			tb = qvt{dt, true, ta.unit}
			b = qT("const", qVm(dt, true, ta.unit, "nil"), zero)
		}
		ru := ""
		if ta.unit == tb.unit {
			ru = ta.unit
		}
		return qT("num", op, a, b), qvt{dt, ta.req && tb.req, ru}
	case 6: // un
		ops := qUops[:3]
		if dt == "dec" {
			ops = qUops[:6]
		}
		op := g.pick(ops)
		if g.fire() {
			if g.r.Bool() || dt == "dec" {
				op = "bogus"
			} else {
				op = "ceil"
			}
		}
		a, ta := g.val(env, dt, wreq, wunit, depth-1)
		return qT("un", op, a), ta
	case 7: // reduce (report values only)
		if g.dsMode || wreq == 2 {
			break
		}
		if s, t, ok := g.reduce(env, dt, wunit); ok {
			return s, t
		}
	}
	return g.leaf(env, dt, wreq, wunit)
}

func (g *qgen) reduce(env []qcol, dt string, wunit *string) (string, qvt, bool) {
	var ints, decs, others []qcol
	seen := map[string]bool{}
	dup := false
	for _, c := range env {
		if seen[c.urn] {
			dup = true
			continue
		}
		seen[c.urn] = true
		switch {
		case c.req && c.dt == "int":
			ints = append(ints, c)
		case c.req && c.dt == "dec":
			decs = append(decs, c)
		default:
			others = append(others, c)
		}
	}
	var rt string
	var group []qcol
	own, other := ints, decs
	if dt == "dec" {
		own, other = decs, ints
	}
	special := "count"
	if dt == "dec" {
		special = "avg"
	}
	if len(own) > 0 && (len(other) == 0 || g.r.Intn(3) > 0) {
		group = own
		rt = g.pick([]string{"sum", "min", "max", special})
	} else if len(other) > 0 {
		group, rt = other, special
	} else {
		return "", qvt{}, false
	}
	// choose 1..3 distinct columns of the group, kept in schema order
	k := g.r.Range(1, min(3, len(group)))
	idx := make([]int, len(group))
	for i := range idx {
		idx[i] = i
	}
	for i := 0; i < k; i++ {
		j := i + g.r.Intn(len(group)-i)
		idx[i], idx[j] = idx[j], idx[i]
	}
	chosen := append([]int(nil), idx[:k]...)
	sort.Ints(chosen)
	unit := group[chosen[0]].unit
	for _, i := range chosen[1:] {
		if group[i].unit != unit {
			unit = ""
			break
		}
	}
	if wunit != nil && unit != *wunit {
		return "", qvt{}, false
	}
	urns := make([]string, 0, k+1)
	for _, i := range chosen {
		urns = append(urns, qQ(group[i].urn))
	}
	// presentation order of the urns is irrelevant (a set): rotate sometimes, repeat one sometimes
	if len(urns) > 1 && g.r.Bool() {
		urns = append(urns[1:], urns[0])
	}
	if g.r.Intn(8) == 0 {
		urns = append(urns, urns[0])
	}
	useAll := !dup && len(others) == 0 && k == len(group) && len(group) == len(env) && g.r.Bool()
	if g.fireN(2) {
		useAll = false
		switch g.r.Intn(5) {
		case 0:
			if len(others) > 0 {
				urns = append(urns, qQ(others[g.r.Intn(len(others))].urn))
			} else {
				urns = append(urns, "'zz")
			}
		case 1:
			urns = append(urns, "'zz")
		case 2:
			urns = nil
		case 3:
			rt = "bogus"
		default:
			if dt == "int" && len(decs) > 0 {
				urns = append(urns, qQ(decs[0].urn))
			} else if dt == "dec" && len(ints) > 0 {
				urns = append(urns, qQ(ints[0].urn))
			} else {
				rt = "bogus"
			}
		}
	}
	if useAll {
		return qT("reduce", rt, "all"), qvt{dt, true, unit}, true
	}
	return qT(append([]string{"reduce", rt}, urns...)...), qvt{dt, true, unit}, true
}

// ---- filters

func qUrnIdx(schema []qcol, urn string) int {
	for i, c := range schema {
		if c.urn == urn {
			return i
		}
	}
	return -1
}

// rfChain generates n report filters over the schema, tracking the evolving schema.
func (g *qgen) rfChain(schema []qcol, n int) ([]string, []qcol) {
	saved := g.dsMode
	g.dsMode = false
	defer func() { g.dsMode = saved }()
	var out []string
	schema = append([]qcol(nil), schema...)
	for i := 0; i < n; i++ {
		if len(schema) == 0 {
			break
		}
		switch g.weighted(30, 10, 10, 12, 8, 15, 15, 9) {
		case 7: // aligner: every field must be numeric; mostly preceded by a projection to the numeric columns
			var num, other []string
			var numCols []qcol
			for _, c := range schema {
				if c.dt == "int" || c.dt == "dec" {
					num = append(num, qQ(c.urn))
					numCols = append(numCols, c)
				} else {
					other = append(other, qQ(c.urn))
				}
			}
			if len(other) > 0 && len(num) > 0 && g.r.Intn(4) > 0 {
				out = append(out, qT(append([]string{"drop"}, other...)...))
				schema = numCols
			}
			out = append(out, g.alignFilter())
		case 0: // append
			v, t := g.val(schema, g.prefDt(schema), 0, nil, g.depth())
			urn, ou := g.fresh(), g.ounit()
			if g.fire() {
				if g.r.Intn(4) > 0 {
					urn = schema[g.r.Intn(len(schema))].urn
				} else {
					urn = ""
				}
			}
			out = append(out, qT("append", v, qAfm(urn, ou, g.cm())))
			if ou != "" {
				t.unit = ou
			}
			schema = append(schema, qcol{urn, t.dt, t.req, t.unit})
		case 1: // drop
			var urns []string
			var keep []qcol
			if g.fire() {
				switch g.r.Intn(3) {
				case 0: // drop everything
					for _, c := range schema {
						urns = append(urns, qQ(c.urn))
					}
				case 1: // unknown only
					urns = []string{"'zz"}
				default: // one known, one unknown
					urns = []string{qQ(schema[0].urn), "'zz"}
				}
				out = append(out, qT(append([]string{"drop"}, urns...)...))
				continue
			}
			if len(schema) < 2 {
				continue
			}
			for _, c := range schema {
				if g.r.Intn(3) == 0 {
					urns = append(urns, qQ(c.urn))
				} else {
					keep = append(keep, c)
				}
			}
			if len(urns) == 0 {
				urns, keep = []string{qQ(schema[len(schema)-1].urn)}, schema[:len(schema)-1]
			}
			if len(keep) == 0 {
				urns, keep = urns[1:], schema[:1]
			}
			if g.r.Intn(8) == 0 {
				urns = append(urns, urns[0]) // repeated urn: the filter holds a set
			}
			out = append(out, qT(append([]string{"drop"}, urns...)...))
			schema = append([]qcol(nil), keep...)
		case 2: // select
			k := g.r.Range(1, 3)
			if g.fire() {
				if g.r.Bool() {
					out = append(out, "( select )")
					continue
				}
				k = -k // duplicate urn among the selected fields
			}
			dupl := k < 0
			if dupl {
				k = -k + 1
			}
			env := append([]qcol(nil), schema...)
			var sel []qcol
			parts := []string{"select"}
			// shadowing (R2, fix 5caebc0): entry `shadow` re-uses the urn of an existing field, so the later entries are
			// planned over a field list that holds that urn twice; the entry after it is often a reduce over that urn
			// (alone, or together with an unknown urn) — the count-based "missing" check got both wrong
			shadow, shadowCol := -1, qcol{}
			if !dupl && g.r.Intn(4) == 0 {
				if k < 2 {
					k = 2
				}
				shadow, shadowCol = g.r.Intn(k-1), schema[g.r.Intn(len(schema))]
			}
			for j := 0; j < k; j++ {
				v, t := g.val(env, g.prefDt(env), 0, nil, g.depth())
				urn, ou := g.fresh(), g.ounit()
				if dupl && j == k-1 {
					urn = sel[0].urn
				}
				if j == shadow {
					urn = shadowCol.urn
					if g.r.Bool() {
						v, t = qT("ref", qQ(shadowCol.urn)), qvt{shadowCol.dt, shadowCol.req, shadowCol.unit}
					}
				}
				if shadow >= 0 && j == shadow+1 && g.r.Intn(3) > 0 {
					urns := []string{qQ(shadowCol.urn)}
					if g.r.Intn(3) == 0 {
						urns = append(urns, "'zz")
					}
					rt, rdt := g.pick([]string{"sum", "max", "count"}), shadowCol.dt
					if rt == "count" {
						rdt = "int"
					}
					v, t = qT(append([]string{"reduce", rt}, urns...)...), qvt{rdt, true, shadowCol.unit}
				}
				if ou != "" {
					t.unit = ou
				}
				parts = append(parts, qT(v, qAfm(urn, ou, g.cm())))
				c := qcol{urn, t.dt, t.req, t.unit}
				sel = append(sel, c)
				env = append(env, c)
			}
			out = append(out, qT(parts...))
			schema = sel
		case 3: // replace
			idx := g.r.Intn(len(schema))
			target := schema[idx].urn
			v, t := g.val(schema, g.prefDt(schema), 0, nil, g.depth())
			urn, ou := target, g.ounit()
			if g.r.Bool() {
				urn = g.fresh()
			}
			if g.fireN(3) {
				switch g.r.Intn(5) {
				case 0, 1:
					target = "zz"
				case 2:
					urn = ""
				default: // rename onto another existing field
					urn = schema[(idx+1)%len(schema)].urn
				}
			}
			if ou != "" {
				t.unit = ou
			}
			out = append(out, qT("replace", qQ(target), v, qAfm(urn, ou, g.cm())))
			schema[idx] = qcol{urn, t.dt, t.req, t.unit}
		case 4: // single
			v, t := g.val(schema, g.prefDt(schema), 0, nil, g.depth())
			urn, ou := g.fresh(), g.ounit()
			if g.r.Intn(3) == 0 {
				urn = schema[g.r.Intn(len(schema))].urn
			}
			if g.fireN(20) {
				urn = ""
			}
			if ou != "" {
				t.unit = ou
			}
			out = append(out, qT("single", v, qAfm(urn, ou, g.cm())))
			schema = []qcol{{urn, t.dt, t.req, t.unit}}
		case 5: // override
			idx := g.r.Intn(len(schema))
			field := schema[idx].urn
			nu, nun := "nil", "nil"
			c := schema[idx]
			switch g.weighted(40, 45, 15) {
			case 1:
				c.urn = g.fresh()
				nu = qQ(c.urn)
			case 2:
				nu = qQ(c.urn)
			}
			if g.r.Bool() {
				c.unit = g.pick(qUnits)
				nun = qQ(c.unit)
			}
			if g.fire() {
				switch g.r.Intn(6) {
				case 0, 1:
					field = "zz"
				case 2:
					nu = "'"
				default:
					nu = qQ(schema[(idx+1)%len(schema)].urn)
				}
			}
			out = append(out, qT("override", qQ(field), nu, nun, g.cm3()))
			schema[idx] = c
		default: // where
			v, _ := g.val(schema, "bool", 1, nil, g.depth())
			out = append(out, qT("where", v))
		}
	}
	return out, schema
}

// dfChain generates n datasource filters over the single column.
func (g *qgen) dfChain(c qcol, n int, allowFval bool) ([]string, qcol) {
	saved := g.dsMode
	g.dsMode = true
	defer func() { g.dsMode = saved }()
	var out []string
	for i := 0; i < n; i++ {
		wf, ww, wo := 45, 20, 35
		if g.tw {
			wf, ww, wo = 35, 15, 50
		}
		if !allowFval {
			wf = 0
		}
		wx := 22 // stream filters: aligner / delta / rate (not in tw pipelines: they have no report-API twin)
		if g.tw {
			wx = 0
		}
		switch g.weighted(wf, ww, wo, wx) {
		case 3:
			f, c2 := g.streamFilterD(c)
			out = append(out, f)
			c = c2
		case 0:
			v, t := g.val([]qcol{c}, g.prefDt([]qcol{c}), 0, nil, g.depth())
			urn, ou := c.urn, g.ounit()
			if g.r.Bool() {
				urn = g.fresh()
			}
			if g.fireN(20) {
				urn = ""
			}
			if ou != "" {
				t.unit = ou
			}
			out = append(out, qT("fval", v, qAfm(urn, ou, g.cm())))
			c = qcol{urn, t.dt, t.req, t.unit}
		case 1:
			v, _ := g.val([]qcol{c}, "bool", 1, nil, g.depth())
			out = append(out, qT("where", v))
		default:
			nu, nun := "nil", "nil"
			switch g.weighted(40, 50, 10) {
			case 1:
				c.urn = g.fresh()
				nu = qQ(c.urn)
			case 2:
				nu = qQ(c.urn)
			}
			if g.r.Bool() {
				c.unit = g.pick(qUnits)
				nun = qQ(c.unit)
			}
			if g.fireN(20) {
				nu = "'"
			}
			out = append(out, qT("override", nu, nun, g.cm3()))
		}
	}
	return out, c
}

// alignFilter: a random aligner filter (fixed period on or off the row grid; with / without fill mode).
func (g *qgen) alignFilter() string {
	p := []string{"1000000000", "2000000000", "3000000000", "500000000", "1500000000", "7000000000"}[g.weighted(30, 25, 15, 10, 10, 10)]
	switch g.weighted(40, 28, 28, 4) {
	case 1:
		return qT("alignfill", p, "linear")
	case 2:
		return qT("alignfill", p, "forward")
	case 3:
		return qT("alignfill", p, "bogus")
	}
	return qT("align", p)
}

func (g *qgen) maxCounter() string {
	return []string{"0", "16", "100", "-5", "d:3fe0000000000000", "d:7ff8000000000001", "d:7ff0000000000000", "9223372036854775807"}[g.weighted(30, 25, 20, 5, 5, 5, 5, 5)]
}

// streamFilterD: a random stream filter of package datasource over column c and the column it declares.  No
// mutation is needed for invalid uses: c is of a random type / optionality, so non-numeric and optional fields occur.
func (g *qgen) streamFilterD(c qcol) (string, qcol) {
	nn := []string{"0", "1"}[g.r.Intn(2)]
	switch g.weighted(40, 30, 30) {
	case 1:
		return qT("delta", nn, g.maxCounter()), c
	case 2:
		u := g.ounit()
		ps := []string{"1", "60", "0", "-3", "3600"}[g.weighted(35, 30, 15, 10, 10)]
		return qT("rate", qQ(u), ps, nn, g.maxCounter()), qcol{c.urn, "dec", true, u}
	}
	return g.alignFilter(), c
}

// ---- datasource trees

func (g *qgen) genR(depth int) (string, []qcol) {
	k := 0
	if depth > 0 {
		k = g.weighted(25, 40, 20, 15)
	}
	switch k {
	case 1:
		inner, schema := g.genR(depth - 1)
		fs, out := g.rfChain(schema, g.r.Intn(5))
		return qT(append([]string{"rfilt", inner}, fs...)...), out
	case 2:
		jt := g.pick([]string{"inner", "left", "full"})
		n := g.weighted(5, 15, 50, 30)
		parts := []string{"join", jt}
		var schema []qcol
		for i := 0; i < n; i++ {
			var s string
			var sc []qcol
			if depth-1 > 0 && g.r.Intn(3) == 0 {
				s, sc = g.genR(depth - 1)
			} else {
				s, sc = g.rstatic(3, "")
			}
			parts = append(parts, s)
			for _, c := range sc {
				if (jt == "left" && i > 0) || (jt == "full" && n > 1) {
					c.req = false
				}
				schema = append(schema, c)
			}
		}
		if len(schema) > 0 && g.fire() { // a source sharing a urn with the others
			s, sc := g.rstatic(2, schema[g.r.Intn(len(schema))].urn)
			parts = append(parts, s)
			schema = append(schema, sc...)
		}
		if len(schema) == 0 { // join of nothing: keep the generator going with a placeholder schema
			return qT(parts...), nil
		}
		return qT(parts...), schema
	case 3:
		d, c := g.genD(depth - 1)
		return qT("fromds", d), []qcol{c}
	}
	return g.rstatic(5, "")
}

func qReduceResultDt(rt, dt string) string {
	switch rt {
	case "avg":
		return "dec"
	case "count":
		return "int"
	}
	return dt
}

func (g *qgen) genReduction() (string, qcol) {
	dt := g.pick([]string{"int", "dec"})
	rt := g.pick(qRts[:5])
	period := int64(1_000_000_000)
	switch g.weighted(80, 16, 4) {
	case 1:
		period = 2_000_000_000
	case 2:
		period = 0
	}
	n := g.weighted(10, 30, 38, 22)
	urn, ou := g.fresh(), g.ounit()
	fb := "none"
	fbv := qvt{}
	if g.r.Intn(4) == 0 || (n == 0 && g.r.Intn(3) > 0) {
		saved := g.dsMode
		g.dsMode = true
		fb, fbv = g.constant(g.anyDt(), 0, nil)
		g.dsMode = saved
	}
	mutSrc := -1
	mutKind := 0
	if g.fire() {
		switch g.r.Intn(6) {
		case 0:
			rt = "bogus"
		case 1:
			urn = ""
		case 2:
			fb = "( ref )"
		case 3:
			fb = "( cast ( const ( vm int 1 ' nil ) i:1 ) dec )"
		default:
			if n == 0 {
				fb = "none"
			} else {
				mutSrc, mutKind = g.r.Intn(n), g.r.Intn(3)
			}
		}
	}
	half := g.r.Intn(6) == 0
	parts := []string{"reduction", rt, strconv.FormatInt(period, 10), qAfm(urn, ou, g.cm()), fb}
	unit, allSame := "", true
	for i := 0; i < n; i++ {
		c := qcol{g.fresh(), dt, true, g.unit()}
		if g.r.Intn(3) > 0 && i > 0 {
			c.unit = unit
		}
		if i == mutSrc {
			switch mutKind {
			case 0:
				c.req = false
			case 1:
				c.dt = g.pick([]string{"str", "bool", "ts"})
			default:
				c.dt = map[string]string{"int": "dec", "dec": "int"}[dt]
			}
		}
		if i == 0 {
			unit = c.unit
		} else if c.unit != unit {
			allSame = false
		}
		s := g.dstaticCol(c, g.nrows(), half && g.r.Bool(), g.cm())
		if g.r.Intn(4) == 0 {
			fs, _ := g.dfChain(c, 1, false)
			s = qT(append([]string{"dfilt", s}, fs...)...)
		}
		parts = append(parts, s)
	}
	res := qcol{urn, qReduceResultDt(rt, dt), true, ""}
	if n == 0 {
		res = qcol{urn, fbv.dt, fbv.req, fbv.unit}
		if res.dt == "" {
			res.dt = dt
		}
	} else if allSame && rt != "count" {
		res.unit = unit
	}
	if ou != "" {
		res.unit = ou
	}
	return qT(parts...), res
}

func (g *qgen) genD(depth int) (string, qcol) {
	k := 0
	if depth > 0 {
		k = g.weighted(20, 35, 30, 15)
	}
	switch k {
	case 1:
		inner, c := g.genD(depth - 1)
		fs, out := g.dfChain(c, g.r.Intn(5), true)
		return qT(append([]string{"dfilt", inner}, fs...)...), out
	case 2:
		return g.genReduction()
	case 3:
		r, schema := g.genR(depth - 1)
		if len(schema) == 0 {
			return qT("tods", r, "'zz"), qcol{"zz", "int", true, ""}
		}
		c := schema[g.r.Intn(len(schema))]
		urn := c.urn
		if g.fireN(12) {
			urn = "zz"
		}
		return qT("tods", r, qQ(urn)), c
	}
	return g.dstatic()
}

func (g *qgen) fromTo() (int64, int64) {
	// boundary points: a row key of the case or that +-1ns; half of the time the extreme row key (the first one for
	// `from`, the last one for `to`) so that the half-open boundaries are hit while most rows stay inside
	point := func(wantMax bool) int64 {
		if len(g.allTs) == 0 {
			return int64(g.r.Intn(13)) * 1_000_000_000
		}
		t := g.allTs[g.r.Intn(len(g.allTs))]
		if g.r.Bool() {
			for _, x := range g.allTs {
				if (wantMax && x > t) || (!wantMax && x < t) {
					t = x
				}
			}
		}
		switch g.r.Intn(3) {
		case 0:
			return t
		case 1:
			return t - 1
		}
		return t + 1
	}
	var from, to int64
	switch g.weighted(60, 8, 32) {
	case 0:
		from = qFarBelow
	case 1:
		from = 0
	default:
		from = point(false)
	}
	switch g.weighted(66, 2, 32) {
	case 0:
		to = qFarAbove
	case 1:
		to = 0
	default:
		to = point(true)
	}
	return from, to
}

// randomQ generates one random `q rep|ds` case; the bool tells whether a non-conforming table was injected.
func (g *qgen) randomQ() (string, bool) {
	g.reset()
	if g.r.Intn(100) < 72 {
		g.mut = 1
	}
	g.nonconf = g.r.Intn(50) == 0
	mode := "exact"
	depth := g.weighted(4, 46, 33, 17)
	var kind, tree string
	if g.r.Bool() {
		kind = "rep"
		var schema []qcol
		tree, schema = g.genR(depth)
		if g.r.Intn(25) == 0 && len(schema) > 0 {
			c := schema[g.r.Intn(len(schema))]
			tree = qT("rfilt", tree, qT("append", qT("un", g.pick(qUops[6:12]), qT("ref", qQ(c.urn))), qAfm("zq", "", "nil")))
			mode = "mask"
		}
	} else {
		kind = "ds"
		tree, _ = g.genD(depth)
		if g.r.Intn(25) == 0 {
			tree = qT("dfilt", tree, qT("fval", qT("un", g.pick(qUops[6:12]), "( ref )"), qAfm("zq", "", "nil")))
			mode = "mask"
		}
	}
	from, to := g.fromTo()
	return fmt.Sprintf("q %s %s %d %d %s", kind, mode, from, to, tree), g.didNonconf
}

// randomTw generates one random `tw` case.
func (g *qgen) randomTw() (string, bool) {
	g.reset()
	g.tw = true
	if g.r.Intn(100) < 55 {
		g.mut = 1
	}
	g.nonconf = g.r.Intn(50) == 0
	st, c := g.dstatic()
	fs, _ := g.dfChain(c, g.r.Intn(5), true)
	tree := st
	if len(fs) > 0 || g.r.Bool() {
		tree = qT(append([]string{"dfilt", st}, fs...)...)
	}
	mode := "exact"
	from, to := g.fromTo()
	return fmt.Sprintf("tw %s %d %d %s", mode, from, to, tree), g.didNonconf
}

// ---------------------------------------------------------------------------------------------------------------
// emission

type qEmitter struct {
	c    *Ctx
	exec func(string) (string, bool)
	st   qStats
}

func (e *qEmitter) emit(caseText string, forceN bool) {
	obs, inputFail := e.exec(caseText)
	key, nontrivial := qObsKey(obs)
	if inputFail {
		key = "input-" + key
	}
	if strings.HasPrefix(caseText, "tbl ") {
		key, nontrivial = "tbl", true
	}
	e.st.add(key)
	e.c.Raw(nontrivial && !inputFail && !forceN, caseText, obs)
}

func (e *qEmitter) summary(prop string) {
	e.c.Flush()
	fmt.Fprintf(os.Stderr, "%s summary: cases=%d %s\n", prop, e.c.N, e.st.String())
}

// ---------------------------------------------------------------------------------------------------------------
// phase 1: exhaustive small scope over the fixed table T0

type qP1Col struct {
	col   qcol
	cm    string
	cells [4]string
}

var qP1Ts = [4]int64{1_000_000_000, 2_000_000_000, 3_000_000_000, 4_000_000_000}

const (
	qP1From = int64(1_000_000_000)
	qP1To   = int64(4_000_000_001)
)

func qP1Cols() []qP1Col {
	d := func(k int) string { return qDecCell(k) }
	return []qP1Col{
		{qcol{"ri", "int", true, ""}, "nil", [4]string{"i:7", "i:5", "i:-3", "i:12"}},
		{qcol{"oi", "int", false, "s"}, "nil", [4]string{"i:2", "nil", "i:0", "nil"}},
		{qcol{"rd", "dec", true, "kb"}, "nil", [4]string{d(12), d(-18), d(32), d(4)}},
		{qcol{"od", "dec", false, "kb"}, "nil", [4]string{d(4), "nil", d(0), "nil"}},
		{qcol{"rs", "str", true, ""}, "( cm 'k 'v )", [4]string{"'12", "'abc", "'3.5", "'-7"}},
		{qcol{"os", "str", false, ""}, "nil", [4]string{"'12", "nil", "'-7", "nil"}},
		{qcol{"rb", "bool", true, ""}, "nil", [4]string{"b:1", "b:0", "b:1", "b:0"}},
		{qcol{"ob", "bool", false, ""}, "nil", [4]string{"b:0", "nil", "b:1", "nil"}},
		{qcol{"rt", "ts", true, ""}, "nil", [4]string{"t:1000000000", "t:2000000000", "t:0", "t:4000000000"}},
		{qcol{"ot", "ts", false, ""}, "nil", [4]string{"t:5000000000", "nil", "t:3000000000", "nil"}},
	}
}

func qP1T0(cols []qP1Col) string {
	metas := []string{"metas"}
	for _, c := range cols {
		metas = append(metas, qFmText(c.col, c.cm))
	}
	rows := []string{"rows"}
	for i, ts := range qP1Ts {
		r := []string{"r", strconv.FormatInt(ts, 10)}
		for _, c := range cols {
			r = append(r, c.cells[i])
		}
		rows = append(rows, qT(r...))
	}
	return qT("rstatic", qT(metas...), qT(rows...))
}

func qP1Dstatic(c qP1Col) string {
	rows := []string{"rows"}
	for i, ts := range qP1Ts {
		rows = append(rows, qT("r", strconv.FormatInt(ts, 10), c.cells[i]))
	}
	return qT("dstatic", qFmText(c.col, c.cm), qT(rows...))
}

// qv2 is a value in both spellings (report / datasource) with the set of referenced columns.
type qv2 struct {
	rep, ds string
	cols    []string
	reduce  bool
	vt      qvt
}

func qv2Join(head string, pre []string, kids []qv2, post []string) qv2 {
	var out qv2
	rp := append([]string{head}, pre...)
	dp := append([]string{head}, pre...)
	for _, k := range kids {
		rp = append(rp, k.rep)
		dp = append(dp, k.ds)
		out.cols = append(out.cols, k.cols...)
		out.reduce = out.reduce || k.reduce
	}
	rp = append(rp, post...)
	dp = append(dp, post...)
	out.rep, out.ds = qT(rp...), qT(dp...)
	return out
}

func qv2Cast(a qv2, dt string) qv2     { return qv2Join("cast", nil, []qv2{a}, []string{dt}) }
func qv2Cond(op string, a, b qv2) qv2  { return qv2Join("cond", []string{op}, []qv2{a, b}, nil) }
func qv2Num(op string, a, b qv2) qv2   { return qv2Join("num", []string{op}, []qv2{a, b}, nil) }
func qv2Un(op string, a qv2) qv2       { return qv2Join("un", []string{op}, []qv2{a}, nil) }
func qv2Logic(op string, a, b qv2) qv2 { return qv2Join("logic", []string{op}, []qv2{a, b}, nil) }
func qv2Nvl(a, b qv2) qv2              { return qv2Join("nvl", nil, []qv2{a, b}, nil) }
func qv2Sel(s, a, b qv2) qv2           { return qv2Join("sel", nil, []qv2{s, a, b}, nil) }
func qv2Reduce(rt string, urns ...string) qv2 {
	parts := []string{"reduce", rt}
	parts = append(parts, urns...)
	return qv2{rep: qT(parts...), reduce: true}
}

type qP1 struct {
	cols    []qP1Col
	byUrn   map[string]qP1Col
	t0      string
	refs    []qv2                            // the ten ref leaves
	leaves  []qv2                            // refs + constants
	emitRep func(caseText string)            // (a) form
	emitDs  func(mode string, dsTree string) // (b) form
}

func newQP1() *qP1 {
	p := &qP1{cols: qP1Cols(), byUrn: map[string]qP1Col{}}
	p.t0 = qP1T0(p.cols)
	for _, c := range p.cols {
		p.byUrn[c.col.urn] = c
		p.refs = append(p.refs, qv2{rep: qT("ref", qQ(c.col.urn)), ds: "( ref )", cols: []string{c.col.urn},
			vt: qvt{c.col.dt, c.col.req, c.col.unit}})
	}
	p.leaves = append(p.leaves, p.refs...)
	consts := map[string]string{"int": "i:3", "dec": qDecCell(20), "str": "'12", "bool": "b:1", "ts": "t:2000000000"}
	for _, dt := range qDts {
		rc := qT("const", qVm(dt, true, "", "nil"), consts[dt])
		oc := qT("const", qVm(dt, false, "", "nil"), "nil")
		p.leaves = append(p.leaves, qv2{rep: rc, ds: rc, vt: qvt{dt, true, ""}}, qv2{rep: oc, ds: oc, vt: qvt{dt, false, ""}})
	}
	return p
}

// emitV emits the value appended to T0 (a) and, when it qualifies, over the one-column datasource (b).
func (p *qP1) emitV(v qv2, mask bool) {
	mode := "exact"
	if mask {
		mode = "mask"
	}
	if p.emitRep != nil {
		p.emitRep(fmt.Sprintf("q rep %s %d %d %s", mode, qP1From, qP1To,
			qT("rfilt", p.t0, qT("append", v.rep, "( afm 'z ' nil )"))))
	}
	if v.reduce || p.emitDs == nil {
		return
	}
	col := "ri" // values without any ref run over the ri table
	for i, c := range v.cols {
		if i == 0 {
			col = c
		} else if c != col {
			return
		}
	}
	p.emitDs(mode, qT("dfilt", qP1Dstatic(p.byUrn[col]), qT("fval", v.ds, "( afm 'z ' nil )")))
}

// sample returns k of the n indexes (sorted), chosen by a partial Fisher-Yates shuffle; all when k >= n.
func qSample(r *Rng, n, k int) []int {
	idx := make([]int, n)
	for i := range idx {
		idx[i] = i
	}
	if k >= n {
		return idx
	}
	for i := 0; i < k; i++ {
		j := i + r.Intn(n-i)
		idx[i], idx[j] = idx[j], idx[i]
	}
	idx = idx[:k]
	sort.Ints(idx)
	return idx
}

func (p *qP1) depth1(c *Ctx) {
	// cast: leaf x every dt
	for _, l := range p.leaves {
		for _, dt := range qDtsBogus {
			p.emitV(qv2Cast(l, dt), false)
		}
	}
	// cond / num / logic / nvl over ref-leaf pairs
	for _, op := range qCops {
		for _, a := range p.refs {
			for _, b := range p.refs {
				p.emitV(qv2Cond(op, a, b), false)
			}
		}
	}
	for _, op := range qBops {
		for _, a := range p.refs {
			for _, b := range p.refs {
				p.emitV(qv2Num(op, a, b), false)
			}
		}
	}
	for _, op := range qUops {
		for _, l := range p.leaves {
			p.emitV(qv2Un(op, l), qTranscendental[op])
		}
	}
	for _, op := range qLops {
		for _, a := range p.refs {
			for _, b := range p.refs {
				p.emitV(qv2Logic(op, a, b), false)
			}
		}
	}
	for _, a := range p.refs {
		for _, b := range p.refs {
			p.emitV(qv2Nvl(a, b), false)
		}
	}
	// sel: selector x (true,false) pairs; quick tier: a seeded sample of 300
	var sels []qv2
	for _, s := range p.refs {
		for _, a := range p.refs {
			for _, b := range p.refs {
				sels = append(sels, qv2Sel(s, a, b))
			}
		}
	}
	for _, i := range qSample(c.Rng, len(sels), c.Pick(1000, len(sels))) {
		p.emitV(sels[i], false)
	}
	// reduce
	numeric := []string{"ri", "oi", "rd", "od"}
	for _, rt := range qRts {
		p.emitV(qv2Reduce(rt, "all"), false)
		for _, col := range p.cols {
			p.emitV(qv2Reduce(rt, qQ(col.col.urn)), false)
		}
		for _, a := range numeric {
			for _, b := range numeric {
				if a != b {
					p.emitV(qv2Reduce(rt, qQ(a), qQ(b)), false)
				}
			}
		}
		p.emitV(qv2Reduce(rt, "'zz"), false)
		p.emitV(qv2Reduce(rt), false)
	}
}

// depth2: outer kind x inner kind, the partner operand chosen so that the combination is well-typed where possible.
func (p *qP1) depth2(c *Ctx) {
	ref := func(u string) qv2 {
		for _, r := range p.refs {
			if r.cols[0] == u {
				return r
			}
		}
		panic("no ref " + u)
	}
	with := func(v qv2, dt string, req bool, unit string) qv2 { v.vt = qvt{dt, req, unit}; return v }
	ri, oi, rd, od, rs, os_, rb, ob, rt, ot := ref("ri"), ref("oi"), ref("rd"), ref("od"), ref("rs"), ref("os"), ref("rb"), ref("ob"), ref("rt"), ref("ot")
	inner := []qv2{
		with(qv2Cast(ri, "dec"), "dec", true, ""),
		with(qv2Cast(oi, "dec"), "dec", false, "s"),
		with(qv2Cast(rd, "int"), "int", true, "kb"),
		with(qv2Cast(od, "str"), "str", false, "kb"),
		with(qv2Cast(ri, "str"), "str", true, ""),
		with(qv2Cast(rb, "bool"), "bool", true, ""),
		with(qv2Cast(rs, "int"), "int", true, ""),
		with(qv2Cast(os_, "dec"), "dec", false, ""),
		with(qv2Cond("gt", ri, oi), "bool", false, ""),
		with(qv2Cond("le", rd, rd), "bool", true, ""),
		with(qv2Cond("eq", rs, os_), "bool", false, ""),
		with(qv2Cond("ne", rb, rb), "bool", true, ""),
		with(qv2Num("add", ri, ri), "int", true, ""),
		with(qv2Num("mul", ri, oi), "int", false, ""),
		with(qv2Num("div", rd, od), "dec", false, "kb"),
		with(qv2Num("sub", rd, rd), "dec", true, "kb"),
		with(qv2Num("mod", ri, oi), "int", false, ""),
		with(qv2Un("neg", ri), "int", true, ""),
		with(qv2Un("abs", oi), "int", false, "s"),
		with(qv2Un("sqrt", rd), "dec", true, "kb"),
		with(qv2Un("floor", od), "dec", false, "kb"),
		with(qv2Logic("and", rb, rb), "bool", true, ""),
		with(qv2Logic("or", rb, qv2Cond("lt", ri, ri)), "bool", true, ""),
		with(qv2Nvl(oi, ri), "int", true, "s"),
		with(qv2Nvl(od, rd), "dec", true, "kb"),
		with(qv2Nvl(os_, rs), "str", true, ""),
		with(qv2Nvl(ob, rb), "bool", true, ""),
		with(qv2Nvl(ot, rt), "ts", true, ""),
		with(qv2Sel(rb, ri, ri), "int", true, ""),
		with(qv2Sel(rb, oi, oi), "int", false, "s"),
		with(qv2Sel(rb, rd, rd), "dec", true, "kb"),
		with(qv2Sel(rb, rs, rs), "str", true, ""),
		with(qv2Sel(rb, ob, ob), "bool", false, ""),
		with(qv2Reduce("sum", "'ri"), "int", true, ""),
		with(qv2Reduce("avg", "'ri"), "dec", true, ""),
		with(qv2Reduce("count", "'rd"), "int", true, ""),
		with(qv2Reduce("max", "'rd"), "dec", true, "kb"),
		with(qv2Reduce("avg", "'ri", "'rd"), "dec", true, ""),
	}
	reqOf := map[string]qv2{"int": ri, "dec": rd, "str": rs, "bool": rb, "ts": rt}
	optOf := map[string]qv2{"int": oi, "dec": od, "str": os_, "bool": ob, "ts": ot}
	type item struct {
		v    qv2
		mask bool
	}
	var all []item
	add := func(v qv2, mask bool) { all = append(all, item{v, mask}) }
	for _, x := range inner {
		partner := reqOf[x.vt.dt]
		opt := optOf[x.vt.dt]
		for _, dt := range qDtsBogus {
			add(qv2Cast(x, dt), false)
		}
		for _, op := range qCops {
			add(qv2Cond(op, x, partner), false)
			add(qv2Cond(op, partner, x), false)
		}
		for _, op := range qBops {
			add(qv2Num(op, x, partner), false)
			add(qv2Num(op, partner, x), false)
		}
		for _, op := range qUops {
			add(qv2Un(op, x), qTranscendental[op])
		}
		for _, op := range qLops {
			add(qv2Logic(op, x, rb), false)
			add(qv2Logic(op, rb, x), false)
		}
		add(qv2Nvl(x, partner), false)
		add(qv2Nvl(opt, x), false)
		add(qv2Sel(x, ri, ri), false)
		add(qv2Sel(rb, x, partner), false)
		add(qv2Sel(rb, partner, x), false)
		add(qv2Sel(rb, x, opt), false)
	}
	for _, i := range qSample(c.Rng, len(all), len(all)) {
		p.emitV(all[i].v, all[i].mask)
	}
}

// ---------------------------------------------------------------------------------------------------------------

func genC10(c *Ctx) {
	e := &qEmitter{c: c, exec: execC10X}
	// phase 0: the operator tables, exhaustively
	tbl := func(parts ...string) { e.emit("tbl "+strings.Join(parts, " "), false) }
	for _, op := range qBops {
		for _, dt := range qDtsBogus {
			tbl("bin", op, dt)
		}
	}
	for _, op := range qUops {
		for _, dt := range qDtsBogus {
			tbl("un", op, dt)
		}
	}
	for _, op := range qCops {
		for _, dt := range qDtsBogus {
			tbl("cond", op, dt)
		}
	}
	for _, d1 := range qDtsBogus {
		for _, d2 := range qDtsBogus {
			tbl("cast", d1, d2)
		}
	}
	for _, rt := range qRts {
		for _, dt := range qDtsBogus {
			tbl("red", rt, dt)
		}
	}
	for _, dt := range qDtsBogus {
		tbl("dtype", dt)
	}
	// phase 1: exhaustive small scope over T0
	p := newQP1()
	p.emitRep = func(caseText string) { e.emit(caseText, false) }
	p.emitDs = func(mode, tree string) {
		e.emit(fmt.Sprintf("q ds %s %d %d %s", mode, qP1From, qP1To, tree), false)
	}
	p.depth1(c)
	p.depth2(c)
	// phase 2: seeded random
	g := &qgen{r: c.Rng}
	n := c.Pick(40000, 600000)
	for i := 0; i < n; i++ {
		text, nonconf := g.randomQ()
		e.emit(text, nonconf)
	}
	// phase 3: spec-only cases for the filters outside the model (stand-alone aligners, delta, rate)
	genC10Stream(e, c)
	genC10Cal(e, c)
	genC10Struct(c)
	e.summary("C10")
}
