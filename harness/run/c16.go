package run

import (
	"context"
	"fmt"
	"sort"
	"strconv"
	"strings"
	"time"

	"github.com/shpandrak/shpanstream/stream"
	"github.com/shpandrak/shpanstream/utils/timeseries"
	"github.com/shpandrak/shpanstream/utils/timeseries/tsquery"
	"github.com/shpandrak/shpanstream/utils/timeseries/tsquery/datasource"
	"github.com/shpandrak/shpanstream/utils/timeseries/tsquery/report"
)

// C16: the gap filler, directly and through the two interpolating aligner filters.
//
//	case := "<period> <mode> <types> raw=<0|1> budget=<n> | <pt> <pt> ..."     ("-" for the empty series)
//	period := as in C13;  mode := "linear" | "forwardFill" | "bogus";  types := one of i|f per field, e.g. "if"
//	raw=0: the points are a sparse aligned series (timestamps are period starts, strictly increasing) = the property's scope
//	raw=1: an arbitrary raw series (the filters align it first; the direct run gets it as it is)
//	pt := "<unixNanos>:<cell>;<cell>..." (cells as in C13)
//	obs := "G=<res> D=<res> R=<res>"   res := "ok:<unixNanos>=<value>,..." | "ok:-" | "run:<records>" (step budget reached) | "err:<class>"
//	G NewTsGapFillerStream[string] with symbolic values: input record k carries "d<k>", copyFn v = "C(v)",
//	  interpolateFn(target,t1,v1,t2,v2) = "L(target/t1/v1/t2/v2)" - so the observation shows which points the state machine used;
//	D datasource.NewInterpolatingAlignerFilter on the first field;  R report.NewInterpolatingAlignerFilter on all fields.
//	Every stream is consumed through Limit(budget): reaching the budget is reported as "run:" (non-termination detector).

func init() {
	Register("C16", Family{Gen: genC16, Exec: execC16})
}

func tsPrefix(n, budget int) string {
	if n >= budget {
		return "run:"
	}
	return "ok:"
}

func execC16(caseText string) string {
	tsQuiet()
	head, body, ok := strings.Cut(caseText, "|")
	if !ok {
		return "bad-case"
	}
	hs := strings.Fields(head)
	if len(hs) != 5 {
		return "bad-case"
	}
	if _, err := tsParsePeriod(hs[0]); err != nil {
		return "bad-case"
	}
	mkPeriod := func() timeseries.AlignmentPeriod { p, _ := tsParsePeriod(hs[0]); return p }
	var mode timeseries.FillMode
	switch hs[1] {
	case "linear":
		mode = timeseries.FillModeLinear
	case "forwardFill":
		mode = timeseries.FillModeForwardFill
	default:
		mode = timeseries.FillMode(hs[1])
	}
	types := hs[2]
	for _, ch := range types {
		if ch != 'i' && ch != 'f' {
			return "bad-case"
		}
	}
	if len(types) == 0 {
		return "bad-case"
	}
	if _, ok := tsKV(hs[3], "raw"); !ok {
		return "bad-case"
	}
	bs, ok := tsKV(hs[4], "budget")
	if !ok {
		return "bad-case"
	}
	budget, err := strconv.Atoi(bs)
	if err != nil || budget <= 0 {
		return "bad-case"
	}
	pts, err := tsParsePoints(body, len(types))
	if err != nil {
		return "bad-case"
	}
	ctx := context.Background()

	// G: the state machine on symbolic values
	resG := tsGuard(func() string {
		recs := make([]timeseries.TsRecord[string], len(pts))
		for i, p := range pts {
			recs[i] = timeseries.TsRecord[string]{Timestamp: time.Unix(0, p.T).UTC(), Value: "d" + strconv.Itoa(i)}
		}
		s := timeseries.NewTsGapFillerStream[string](stream.Just(recs...), mkPeriod(), mode,
			func(target, t1 time.Time, v1 string, t2 time.Time, v2 string) (string, error) {
				return fmt.Sprintf("L(%d/%d/%s/%d/%s)", target.UnixNano(), t1.UnixNano(), v1, t2.UnixNano(), v2), nil
			},
			func(v string) string { return "C(" + v + ")" })
		out, err := s.Limit(budget).Collect(ctx)
		if err != nil {
			return "err:" + tsErrClass(err)
		}
		if len(out) == 0 {
			return "ok:-"
		}
		parts := make([]string, len(out))
		for i, r := range out {
			parts[i] = strconv.FormatInt(r.Timestamp.UnixNano(), 10) + "=" + r.Value
		}
		return tsPrefix(len(out), budget) + strings.Join(parts, ",")
	})

	metas := make([]tsquery.FieldMeta, len(types))
	for i := range types {
		fm, err := tsquery.NewFieldMeta("f"+strconv.Itoa(i), tsDataType(types[i]), true)
		if err != nil {
			return "bad-case"
		}
		metas[i] = *fm
	}
	// D: datasource filter on the first field
	resD := tsGuard(func() string {
		recs := make([]timeseries.TsRecord[any], len(pts))
		for i, p := range pts {
			recs[i] = timeseries.TsRecord[any]{Timestamp: time.Unix(0, p.T).UTC(), Value: p.C[0].any()}
		}
		res, err := datasource.NewInterpolatingAlignerFilter(mkPeriod(), mode).Filter(ctx, datasource.NewResult(metas[0], stream.Just(recs...)))
		if err != nil {
			return "err:filter"
		}
		out, err := res.Data().Limit(budget).Collect(ctx)
		r := tsResAny(out, err)
		if err == nil && len(out) >= budget {
			r = "run:" + strings.TrimPrefix(r, "ok:")
		}
		return r
	})
	// R: report filter on all fields
	resR := tsGuard(func() string {
		recs := make([]timeseries.TsRecord[[]any], len(pts))
		for i, p := range pts {
			row := make([]any, len(p.C))
			for j, c := range p.C {
				row[j] = c.any()
			}
			recs[i] = timeseries.TsRecord[[]any]{Timestamp: time.Unix(0, p.T).UTC(), Value: row}
		}
		res, err := report.NewInterpolatingAlignerFilter(mkPeriod(), mode).Filter(ctx, report.NewResult(metas, stream.Just(recs...)))
		if err != nil {
			return "err:filter"
		}
		out, err := res.Stream().Limit(budget).Collect(ctx)
		r := tsResRows(out, err)
		if err == nil && len(out) >= budget {
			r = "run:" + strings.TrimPrefix(r, "ok:")
		}
		return r
	})
	return "G=" + resG + " D=" + resD + " R=" + resR
}

// ---- generation ----

func tsPeriodOffsetNs(period string) int64 {
	if _, b, ok := strings.Cut(period, "@"); ok {
		o, _ := strconv.ParseInt(b, 10, 64)
		return o * 1000000000
	}
	return 0
}

func emitC16(c *Ctx, period string, mode string, types string, raw bool, pts []tsPoint) {
	minK, maxK := int64(0), int64(0)
	for i, p := range pts {
		k := tsPeriodKey(period, p.T)
		if i == 0 || k < minK {
			minK = k
		}
		if i == 0 || k > maxK {
			maxK = k
		}
	}
	budget := int(maxK-minK) + 1 + 5
	sorted := sort.SliceIsSorted(pts, func(i, j int) bool { return pts[i].T < pts[j].T })
	r := 0
	if raw {
		r = 1
	}
	// non-trivial: in the property's scope (sorted, supported mode) and at least one period has to be filled
	periods := map[int64]bool{}
	for _, p := range pts {
		periods[tsPeriodKey(period, p.T)] = true
	}
	nontrivial := sorted && mode != "bogus" && len(periods) >= 2 && int(maxK-minK)+1 > len(periods)
	c.Case(nontrivial, fmt.Sprintf("%s %s %s raw=%d budget=%d | %s", period, mode, types, r, budget, tsFmtPoints(pts)))
}

func tsRowFor(types string, exact bool, r *Rng, idx int) []tsCell {
	row := make([]tsCell, len(types))
	for j := range types {
		if r == nil {
			row[j] = tsCellFor(types[j], 0, idx+3*j)
			continue
		}
		if types[j] == 'i' {
			if exact {
				row[j] = tsCell{Kind: 'i', I: int64(r.Range(-1000, 1000))}
			} else {
				row[j] = tsCell{Kind: 'i', I: int64(r.Next()>>3) - (1 << 60)}
			}
		} else {
			row[j] = tsCell{Kind: 'f', F: tsRandFloat(r, exact)}
		}
	}
	return row
}

func genC16(c *Ctx) {
	type pk struct {
		name string
		d    int64
	}
	periods := []pk{{"fix:3600000000000", 3600000000000}, {"fix:900000000000", 900000000000}, {"day", 86400000000000}}
	modes := []string{"linear", "forwardFill"}
	// exhaustive small scope: every subset of N consecutive periods having data
	n := c.Pick(7, 10)
	for _, p := range periods {
		for _, mode := range modes {
			for _, types := range []string{"i", "f", "if"} {
				for mask := 0; mask < 1<<uint(n); mask++ {
					var pts []tsPoint
					for i := 0; i < n; i++ {
						if mask&(1<<uint(i)) != 0 {
							pts = append(pts, tsPoint{tsBase + int64(i)*p.d, tsRowFor(types, true, nil, len(pts))})
						}
					}
					emitC16(c, p.name, mode, types, false, pts)
				}
			}
		}
	}
	// seeded random: long gaps, more period kinds, more fields, raw series through the filters, unsupported mode
	rp := []pk{{"fix:3600000000000", 3600000000000}, {"fix:900000000000", 900000000000}, {"day", 86400000000000},
		{"fix:1000000000", 1000000000}, {"fix:7", 7}, {"fix:3600000000000@19800", 3600000000000}, {"fix:86400000000000@-18000", 86400000000000}}
	typeSets := []string{"i", "f", "if", "fi", "ffi", "iif"}
	iters := c.Pick(2500, 100000)
	for it := 0; it < iters; it++ {
		r := c.Rng
		p := rp[r.Intn(len(rp))]
		off := tsPeriodOffsetNs(p.name)
		types := typeSets[r.Intn(len(typeSets))]
		mode := modes[r.Intn(2)]
		if r.Intn(50) == 0 {
			mode = "bogus"
		}
		exact := r.Intn(3) > 0
		base := tsBase
		switch r.Intn(6) {
		case 0:
			base = -31536000 * 1000000000
		case 1:
			base = -3 * p.d
		}
		k0 := tsPeriodKey(p.name, base)
		raw := r.Intn(10) < 3
		var pts []tsPoint
		if !raw {
			cnt := r.Small(12)
			k := k0
			for i := 0; i < cnt; i++ {
				if i > 0 {
					k += 1 + int64(r.Small(40))
				}
				pts = append(pts, tsPoint{k*p.d - off, tsRowFor(types, exact, r, i)})
			}
		} else {
			cnt := r.Small(14)
			t := k0*p.d - off + int64(r.Next()%uint64(p.d))
			for i := 0; i < cnt; i++ {
				switch r.Intn(6) {
				case 0:
					t++
				case 1:
					t += int64(r.Next() % uint64(p.d))
				case 2: // exactly onto a later boundary
					t = (tsPeriodKey(p.name, t)+int64(r.Range(1, 4)))*p.d - off
				case 3:
					t = (tsPeriodKey(p.name, t)+int64(r.Range(1, 3)))*p.d - off - 1
				case 4:
					t += int64(r.Range(1, 12))*p.d + int64(r.Next()%uint64(p.d))
				default:
				}
				pts = append(pts, tsPoint{t, tsRowFor(types, exact, r, i)})
			}
			if mode != "bogus" && r.Intn(30) == 0 && len(pts) >= 2 {
				i, j := r.Intn(len(pts)), r.Intn(len(pts))
				pts[i].T, pts[j].T = pts[j].T, pts[i].T
			}
		}
		emitC16(c, p.name, mode, types, raw, pts)
	}
	// one very long gap (more than 1024 / 2048 periods): every period of it is filled, whatever its length
	for _, gap := range []int64{1023, 1024, 1025, 2049, 2600} {
		for _, mode := range modes {
			for _, types := range []string{"i", "f"} {
				d := int64(1000000000)
				pts := []tsPoint{{tsBase, tsRowFor(types, true, nil, 0)}, {tsBase + d, tsRowFor(types, true, nil, 1)},
					{tsBase + (gap+2)*d, tsRowFor(types, true, nil, 2)}, {tsBase + (gap+3)*d, tsRowFor(types, true, nil, 3)}}
				emitC16(c, "fix:1000000000", mode, types, false, pts)
			}
		}
	}
	// calendar periods across daylight-saving changes: the model's period is the table of starts obtained from
	// GetStartTime; the real gap filler steps with GetEndTime - stepping off that grid (e.g. "+24h") is a divergence.
	for _, sp := range tsTabSpecs {
		np := c.Pick(7, 9)
		if sp.kind != "day" {
			np = 4
		}
		name, bs := tsBuildTable(sp.kind, sp.zone, sp.from, np+2)
		if name == "" {
			continue
		}
		for _, mode := range modes {
			for _, types := range []string{"f", "if"} {
				for mask := 1; mask < 1<<uint(np); mask++ {
					var pts []tsPoint
					for i := 0; i < np; i++ {
						if mask&(1<<uint(i)) != 0 {
							pts = append(pts, tsPoint{bs[i], tsRowFor(types, true, nil, len(pts))})
						}
					}
					emitC16(c, name, mode, types, false, pts)
				}
			}
		}
		// raw series through the filters
		for it := 0; it < c.Pick(60, 600); it++ {
			r := c.Rng
			types := typeSets[r.Intn(len(typeSets))]
			cnt := r.Small(10)
			var ts []int64
			for i := 0; i < cnt; i++ {
				j := r.Intn(np)
				switch r.Intn(4) {
				case 0:
					ts = append(ts, bs[j])
				case 1:
					ts = append(ts, bs[j+1]-1)
				default:
					ts = append(ts, bs[j]+int64(r.Next()%uint64(bs[j+1]-bs[j])))
				}
			}
			sort.Slice(ts, func(a, b int) bool { return ts[a] < ts[b] })
			pts := make([]tsPoint, len(ts))
			for i, t := range ts {
				pts[i] = tsPoint{t, tsRowFor(types, true, r, i)}
			}
			emitC16(c, name, modes[r.Intn(2)], types, true, pts)
		}
	}
}
